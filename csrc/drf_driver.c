/* drf_driver: replay a generated operation script against the public C API
 * of libdigital_rf (compiled directly from /repo/c/lib/rf_write_hdf5.c).
 *
 * usage: drf_driver <script> <logfile>
 *
 * script lines (whitespace separated):
 *   init <dir> <kind i|u|f> <size> <order < | >> <subdir_s> <file_ms> <start>
 *        <n> <d> <uuid> <comp> <checksum> <complex> <nsub> <cont> <salt>
 *   w <idx> <len>                         digital_rf_write_hdf5
 *   b <len> <k> g0 d0 g1 d1 ...           digital_rf_write_blocks_hdf5
 *   n <idx> <len>                         digital_rf_write_hdf5 with NULL vector
 *   sleep <us>                            usleep (pacing of free-running schedules)
 *   cid <c>                               payload call number for the next write op
 *   close
 * script "-" reads ops from stdin and echoes every END line to stdout (interactive sessions)
 *
 * Sample payloads are never read from the script: element e of call c is
 * value(salt, c, e) (splitmix64, see vlib/rfmodel.py for the twin).
 *
 * log lines:
 *   BEGIN <opno> <op>
 *   END <opno> <rc> <global_index> <last_file>|<last_dir>
 */
#include <stdio.h>
#include <stdlib.h>
#include <string.h>
#include <stdint.h>
#include <inttypes.h>
#include <unistd.h>
#include <fcntl.h>

#include "digital_rf.h"

static uint64_t splitmix64(uint64_t x)
{
	uint64_t z = x + 0x9E3779B97F4A7C15ULL;
	z = (z ^ (z >> 30)) * 0xBF58476D1CE4E5B9ULL;
	z = (z ^ (z >> 27)) * 0x94D049BB133111EBULL;
	return z ^ (z >> 31);
}

static uint64_t gen_value(uint64_t base, uint64_t e, int size, int is_float)
{
	uint64_t h = splitmix64(base + e * 0x9E3779B97F4A7C15ULL);
	uint64_t mask = size == 8 ? ~0ULL : ((1ULL << (8 * size)) - 1);
	uint64_t top = 1ULL << (8 * size - 1);
	if ((h >> 60) == 0)
	{
		switch ((h >> 56) & 7)
		{
		case 0: return 0;
		case 1: return mask;
		case 2: return top;
		case 3: return top - 1;
		case 4: return 1;
		case 5: if (is_float) return size == 4 ? 0x7f800000ULL : 0x7ff0000000000000ULL; return top;
		case 6: if (is_float) return size == 4 ? 0x7fc00000ULL : 0x7ff8000000000000ULL; return top - 1;
		default: if (is_float) return size == 4 ? 0xff800001ULL : 0xfff0000000000001ULL; return mask - 1;
		}
	}
	return h & mask;
}

static void fill(unsigned char *buf, uint64_t nelem, int size, int be, int is_float, uint64_t salt, uint64_t call)
{
	uint64_t base = splitmix64(salt + call);
	uint64_t e;
	int b;
	/* value mode in bits 40-42 of the salt (twin: vlib/rfmodel.py gen_values): 0 pseudo-random with special patterns,
	 * 1 all zeros, 2 one constant per call, 3 the documented fill pattern (quiet NaN / most negative), 4 a ramp */
	int vmode = (int)((salt >> 40) & 7);
	uint64_t mask = size == 8 ? ~0ULL : ((1ULL << (8 * size)) - 1);
	uint64_t top = 1ULL << (8 * size - 1);
	for (e = 0; e < nelem; e++)
	{
		uint64_t v;
		switch (vmode)
		{
		case 1: v = 0; break;
		case 2: v = gen_value(base, 0, size, is_float); break;
		case 3: v = is_float ? (size == 4 ? 0x7fc00000ULL : 0x7ff8000000000000ULL) : top; break;
		case 4: v = (e + call) & mask; break;
		default: v = gen_value(base, e, size, is_float);
		}
		for (b = 0; b < size; b++)
		{
			unsigned char byte = (unsigned char)((v >> (8 * b)) & 0xff);
			if (be)
				buf[e * size + (size - 1 - b)] = byte;
			else
				buf[e * size + b] = byte;
		}
	}
}

static hid_t get_type(char kind, int size, char order)
{
	int be = order == '>';
	if (kind == 'f') return size == 4 ? (be ? H5T_IEEE_F32BE : H5T_IEEE_F32LE) : (be ? H5T_IEEE_F64BE : H5T_IEEE_F64LE);
	if (kind == 'i')
		switch (size)
		{
		case 1: return be ? H5T_STD_I8BE : H5T_STD_I8LE;
		case 2: return be ? H5T_STD_I16BE : H5T_STD_I16LE;
		case 4: return be ? H5T_STD_I32BE : H5T_STD_I32LE;
		default: return be ? H5T_STD_I64BE : H5T_STD_I64LE;
		}
	switch (size)
	{
	case 1: return be ? H5T_STD_U8BE : H5T_STD_U8LE;
	case 2: return be ? H5T_STD_U16BE : H5T_STD_U16LE;
	case 4: return be ? H5T_STD_U32BE : H5T_STD_U32LE;
	default: return be ? H5T_STD_U64BE : H5T_STD_U64LE;
	}
}

static int logfd = -1;
static void logline(const char *s)
{
	if (logfd >= 0)
	{
		ssize_t r = write(logfd, s, strlen(s));
		(void)r;
	}
}

int main(int argc, char **argv)
{
	FILE *fp;
	char op[32];
	char line[4096];
	Digital_rf_write_object *obj = NULL;
	int size = 2, be = 0, is_float = 0, is_complex = 0, nsub = 1;
	uint64_t salt = 0;
	uint64_t call = 0;
	long opno = 0;

	if (argc < 3)
	{
		fprintf(stderr, "usage: drf_driver script log\n");
		return 2;
	}
	int interactive = !strcmp(argv[1], "-");
	fp = interactive ? stdin : fopen(argv[1], "r");
	if (!fp) { perror("script"); return 2; }
	logfd = open(argv[2], O_WRONLY | O_CREAT | O_APPEND, 0644);
	if (logfd < 0) { perror("log"); return 2; }
	H5Eset_auto2(H5E_DEFAULT, NULL, NULL);

	while (fscanf(fp, "%31s", op) == 1)
	{
		int rc = 0;
		snprintf(line, sizeof(line), "BEGIN %ld %s\n", opno, op);
		logline(line);
		if (!strcmp(op, "init"))
		{
			char dir[2048], kind[4], order[4], uuid[1024];
			uint64_t subdir_s, file_ms, start, n, d;
			int comp, checksum, cont;
			if (fscanf(fp, "%2047s %3s %d %3s %" SCNu64 " %" SCNu64 " %" SCNu64 " %" SCNu64 " %" SCNu64 " %1023s %d %d %d %d %d %" SCNu64,
					   dir, kind, &size, order, &subdir_s, &file_ms, &start, &n, &d, uuid, &comp, &checksum,
					   &is_complex, &nsub, &cont, &salt) != 16)
			{ fprintf(stderr, "bad init\n"); return 2; }
			be = order[0] == '>';
			is_float = kind[0] == 'f';
			if (obj) { fprintf(stderr, "init while open\n"); return 2; }
			obj = digital_rf_create_write_hdf5(dir, get_type(kind[0], size, order[0]), subdir_s, file_ms, start, n, d,
											   strcmp(uuid, "@EMPTY@") == 0 ? "" : uuid, comp, checksum, is_complex, nsub, cont, 0);
			rc = obj ? 0 : -1;
			call = 0;
		}
		else if (!strcmp(op, "w") || !strcmp(op, "n"))
		{
			uint64_t idx, len, nelem;
			unsigned char *buf;
			if (fscanf(fp, "%" SCNu64 " %" SCNu64, &idx, &len) != 2) { fprintf(stderr, "bad w\n"); return 2; }
			nelem = len * nsub * (is_complex ? 2 : 1);
			buf = (unsigned char *)malloc(nelem * size ? nelem * size : 1);
			fill(buf, nelem, size, be, is_float, salt, call);
			if (!obj) rc = -100;
			else rc = digital_rf_write_hdf5(obj, idx, op[0] == 'n' ? NULL : buf, len);
			free(buf);
			call++;
		}
		else if (!strcmp(op, "b"))
		{
			uint64_t len, k, i, nelem;
			uint64_t *g, *dd;
			unsigned char *buf;
			if (fscanf(fp, "%" SCNu64 " %" SCNu64, &len, &k) != 2) { fprintf(stderr, "bad b\n"); return 2; }
			g = (uint64_t *)malloc(k ? k * sizeof(uint64_t) : 1);
			dd = (uint64_t *)malloc(k ? k * sizeof(uint64_t) : 1);
			for (i = 0; i < k; i++)
				if (fscanf(fp, "%" SCNu64 " %" SCNu64, &g[i], &dd[i]) != 2) { fprintf(stderr, "bad b arr\n"); return 2; }
			nelem = len * nsub * (is_complex ? 2 : 1);
			buf = (unsigned char *)malloc(nelem * size ? nelem * size : 1);
			fill(buf, nelem, size, be, is_float, salt, call);
			if (!obj) rc = -100;
			else rc = digital_rf_write_blocks_hdf5(obj, g, dd, k, buf, len);
			free(buf); free(g); free(dd);
			call++;
		}
		else if (!strcmp(op, "sleep"))
		{
			/* pacing for free-running schedules: sleep <microseconds> */
			uint64_t us;
			if (fscanf(fp, "%" SCNu64, &us) != 1) { fprintf(stderr, "bad sleep\n"); return 2; }
			usleep((useconds_t)us);
			snprintf(line, sizeof(line), "END %ld 0 0 |\n", opno);
			logline(line);
			if (interactive) { fputs(line, stdout); fflush(stdout); }
			opno++;
			continue;
		}
		else if (!strcmp(op, "cid"))
		{
			/* set the payload call number of the next write op */
			if (fscanf(fp, "%" SCNu64, &call) != 1) { fprintf(stderr, "bad cid\n"); return 2; }
			snprintf(line, sizeof(line), "END %ld 0 0 |\n", opno);
			logline(line);
			if (interactive) { fputs(line, stdout); fflush(stdout); }
			opno++;
			continue;
		}
		else if (!strcmp(op, "close"))
		{
			if (obj)
			{
				rc = digital_rf_close_write_hdf5(obj);
				obj = NULL;
				snprintf(line, sizeof(line), "END %ld %d 0 |\n", opno, rc);
				logline(line);
				if (interactive) { fputs(line, stdout); fflush(stdout); }
				opno++;
				continue;
			}
			rc = -100;
		}
		else
		{
			fprintf(stderr, "unknown op %s\n", op);
			return 2;
		}
		if (obj)
		{
			char *lf = digital_rf_get_last_file_written(obj);
			char *ld = digital_rf_get_last_dir_written(obj);
			snprintf(line, sizeof(line), "END %ld %d %" PRIu64 " %s|%s\n", opno, rc, obj->global_index, lf, ld);
			free(lf); free(ld);
		}
		else
			snprintf(line, sizeof(line), "END %ld %d 0 |\n", opno, rc);
		logline(line);
		if (interactive) { fputs(line, stdout); fflush(stdout); }
		opno++;
	}
	if (obj)
		digital_rf_close_write_hdf5(obj);
	fclose(fp);
	close(logfd);
	return 0;
}
