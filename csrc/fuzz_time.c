/* libFuzzer target for the pure time arithmetic of rf_write_hdf5.c (C03, C04).
 *
 * The input bytes are decoded into (index, n, d, second, picosecond, cadences) and clamped into
 * the stated domain; every function is compared with an unsigned __int128 oracle *inside* the
 * target.  A disagreement prints the tuple and traps, so libFuzzer saves the input.
 *
 * FUZZ_TIME_MODE (env): "all" (default), "floor", "ceil", "layout".
 */
#include <stdint.h>
#include <stdio.h>
#include <stdlib.h>
#include <string.h>

#include "digital_rf.h"

typedef unsigned __int128 u128;

#define YEAR9999 253402300800ULL
#define PS 1000000000000ULL

static void civil(uint64_t sec, int *Y, int *M, int *D, int *h, int *m, int *s)
{
	/* days -> civil date, proleptic Gregorian (Hinnant) */
	int64_t z = (int64_t)(sec / 86400) + 719468;
	int64_t era = (z >= 0 ? z : z - 146096) / 146097;
	uint64_t doe = (uint64_t)(z - era * 146097);
	uint64_t yoe = (doe - doe / 1460 + doe / 36524 - doe / 146096) / 365;
	int64_t y = (int64_t)yoe + era * 400;
	uint64_t doy = doe - (365 * yoe + yoe / 4 - yoe / 100);
	uint64_t mp = (5 * doy + 2) / 153;
	uint64_t d = doy - (153 * mp + 2) / 5 + 1;
	int64_t mm = mp < 10 ? mp + 3 : mp - 9;
	uint64_t r = sec % 86400;
	*Y = (int)(y + (mm <= 2));
	*M = (int)mm;
	*D = (int)d;
	*h = (int)(r / 3600);
	*m = (int)((r % 3600) / 60);
	*s = (int)(r % 60);
}

static void die(const char *what, uint64_t a, uint64_t b, uint64_t c, uint64_t d, uint64_t e)
{
	fprintf(stderr, "MISMATCH %s %llu %llu %llu %llu %llu\n", what, (unsigned long long)a, (unsigned long long)b,
			(unsigned long long)c, (unsigned long long)d, (unsigned long long)e);
	__builtin_trap();
}

static uint64_t gcd64(uint64_t a, uint64_t b)
{
	while (b) { uint64_t t = a % b; a = b; b = t; }
	return a;
}

static uint64_t modinv(uint64_t a, uint64_t n)
{
	/* inverse of a modulo n (gcd must be 1), extended Euclid in 128-bit signed arithmetic */
	__int128 t = 0, newt = 1, r = n, newr = a % n;
	while (newr != 0)
	{
		__int128 q = r / newr, tmp;
		tmp = t - q * newt; t = newt; newt = tmp;
		tmp = r - q * newr; r = newr; newr = tmp;
	}
	if (t < 0) t += n;
	return (uint64_t)t;
}

static uint64_t rd64(const uint8_t *p)
{
	uint64_t v;
	memcpy(&v, p, 8);
	return v;
}
static uint32_t rd32(const uint8_t *p)
{
	uint32_t v;
	memcpy(&v, p, 4);
	return v;
}

int LLVMFuzzerTestOneInput(const uint8_t *data, size_t size)
{
	uint64_t idx, n, d, s, ps, F, S, lim;
	uint64_t sec, pico, ceil_out;
	u128 t;
	static int mode = -1;
	if (mode < 0)
	{
		const char *m = getenv("FUZZ_TIME_MODE");
		mode = 0;
		if (m && !strcmp(m, "floor")) mode = 1;
		if (m && !strcmp(m, "ceil")) mode = 2;
		if (m && !strcmp(m, "layout")) mode = 3;
	}
	if (size < 40)
		return 0;
	idx = rd64(data) & 0x7fffffffffffffffULL;
	n = rd32(data + 8);
	if (n == 0) n = 1;
	d = rd32(data + 12) % 1000000000u + 1;
	/* small-magnitude variants selected by flag bits so that residues matter */
	if (data[39] & 1) n = n % 4096 + 1;
	if (data[39] & 2) d = d % 4096 + 1;
	if ((u128)n * d >= ((u128)1 << 64))
	{
		d = (uint64_t)((((u128)1 << 64) - 1) / n);
		if (d == 0) d = 1;
	}
	/* times before year 9999 */
	t = ((u128)YEAR9999 * n) / d;
	lim = t > 0x7fffffffffffffffULL ? 0x7fffffffffffffffULL : (uint64_t)t;
	if (lim == 0) lim = 1;
	if (data[39] & 4)
	{
		/* index on a second boundary +- small */
		uint64_t q = idx % YEAR9999;
		u128 k = ((u128)q * n + d - 1) / d;
		k += (data[38] % 5);
		k = k >= 2 ? k - 2 : k;
		idx = k > lim ? lim : (uint64_t)k;
	}
	else
		idx = idx % lim;
	if ((data[39] & 32) && n > 1)
	{
		/* picosecond part within c/n of an integer: rem*10^12 = -c (mod n) */
		uint64_t nn = n, dd = d, c = data[38] % 8, rem, k0;
		while (gcd64(nn, 10) != 1) nn--;
		if (nn < 2) nn = 3;
		while (gcd64(dd, nn) != 1) dd++;
		if ((u128)nn * dd < ((u128)1 << 64))
		{
			n = nn; d = dd;
			t = ((u128)YEAR9999 * n) / d;
			lim = t > 0x7fffffffffffffffULL ? 0x7fffffffffffffffULL : (uint64_t)t;
			if (lim == 0) lim = 1;
			rem = (uint64_t)(((u128)((n - c % n) % n) * modinv(PS % n, n)) % n);
			k0 = (uint64_t)(((u128)rem * modinv(d % n, n)) % n);
			idx = k0 + (lim > n ? ((rd64(data) % (lim / n)) * n) : 0);
			if (idx >= lim) idx = k0 % lim;
		}
	}
	s = rd64(data + 16) % YEAR9999;
	ps = rd64(data + 24) % PS;
	if (data[39] & 8) ps = (ps / 1000000000ULL) * 1000000000ULL;
	if (data[39] & 16) ps = 0;

	if (mode == 0 || mode == 1)
	{
		u128 num = (u128)idx * d;
		uint64_t esec = (uint64_t)(num / n);
		uint64_t rem = (uint64_t)(num % n);
		uint64_t eps = (uint64_t)(((u128)rem * PS) / n);
		int Y, M, D, h, m, se, y2, m2, d2, h2, mi2, s2;
		uint64_t p2;
		if (digital_rf_get_timestamp_floor(idx, n, d, &sec, &pico) || sec != esec || pico != eps)
			die("floor", idx, n, d, sec, pico);
		if (digital_rf_get_unix_time_rational(idx, n, d, &y2, &m2, &d2, &h2, &mi2, &s2, &p2))
			die("rational-rc", idx, n, d, 0, 0);
		civil(esec, &Y, &M, &D, &h, &m, &se);
		if (Y != y2 || M != m2 || D != d2 || h != h2 || m != mi2 || se != s2 || p2 != eps)
			die("rational", idx, n, d, esec, p2);
		/* monotone */
		if (idx + 1 <= lim)
		{
			uint64_t sec1, pico1;
			digital_rf_get_timestamp_floor(idx + 1, n, d, &sec1, &pico1);
			if (sec1 < sec || (sec1 == sec && pico1 < pico))
				die("monotone", idx, n, d, sec1, pico1);
		}
		/* round trip when one sample period is at least a picosecond: d*1e12 >= n */
		if ((u128)d * PS >= n)
		{
			digital_rf_get_sample_ceil(sec, pico, n, d, &ceil_out);
			if (ceil_out != idx)
				die("roundtrip", idx, n, d, ceil_out, 0);
		}
	}
	if (mode == 0 || mode == 2)
	{
		u128 tps = (u128)s * PS + ps; /* < 2^78 */
		u128 den = (u128)d * PS;      /* < 2^70 */
		/* ceil(tps*n/den) with 128-bit care: tps*n < 2^110 */
		u128 num = tps * n;
		u128 q = num / den;
		if (num % den) q += 1;
		if (q <= 0xffffffffffffffffULL)
		{
			if (digital_rf_get_sample_ceil(s, ps, n, d, &ceil_out) || ceil_out != (uint64_t)q)
				die("ceil", s, ps, n, d, ceil_out);
		}
	}
	if (mode == 0 || mode == 3)
	{
		Digital_rf_write_object obj;
		char subdir[BIG_HDF5_STR], base[SMALL_HDF5_STR], esub[64], ebase[96];
		uint64_t left, mx, ms, fms, dsec, fstart, fnext;
		int Y, M, D, h, m, se;
		static const uint32_t cad[] = {1, 2, 5, 10, 40, 100, 250, 400, 1000, 2000, 60000, 3600000};
		u128 a;
		memset(&obj, 0, sizeof(obj));
		F = (data[32] & 1) ? cad[data[33] % 12] : (rd32(data + 32) >> 8) % 100000 + 1;
		S = 0;
		{
			uint64_t mult = data[36] % 7 + 1;
			if ((F * mult) % 1000 == 0) S = F * mult / 1000; else S = F * mult;
		}
		/* at least one sample in every file */
		if ((u128)F * n < (u128)1000 * d)
			return 0;
		obj.sample_rate_numerator = n;
		obj.sample_rate_denominator = d;
		obj.file_cadence_millisecs = F;
		obj.subdir_cadence_secs = S;
		obj.global_start_sample = idx - (idx % 3 == 0 ? 0 : (idx % 1000));
		{
			uint64_t rel = idx - obj.global_start_sample;
			if (digital_rf_get_subdir_file(&obj, rel, subdir, base, &left, &mx))
				die("layout-rc", idx, n, d, F, S);
		}
		a = (u128)idx * d;
		ms = (uint64_t)((a * 1000) / n);
		fms = ms / F * F;
		dsec = (uint64_t)(a / n) / S * S;
		civil(dsec, &Y, &M, &D, &h, &m, &se);
		snprintf(esub, sizeof(esub), "%04d-%02d-%02dT%02d-%02d-%02d", Y, M, D, h, m, se);
		snprintf(ebase, sizeof(ebase), "tmp.rf@%llu.%03llu.h5", (unsigned long long)(fms / 1000), (unsigned long long)(fms % 1000));
		a = (u128)fms * n;
		fstart = (uint64_t)((a + (u128)1000 * d - 1) / ((u128)1000 * d));
		a = (u128)(fms + F) * n;
		fnext = (uint64_t)((a + (u128)1000 * d - 1) / ((u128)1000 * d));
		if (strcmp(esub, subdir) || strcmp(ebase, base) || left != fnext - idx || mx != fnext - fstart)
		{
			fprintf(stderr, "got %s/%s left %llu max %llu ; expected %s/%s left %llu max %llu\n", subdir, base,
					(unsigned long long)left, (unsigned long long)mx, esub, ebase,
					(unsigned long long)(fnext - idx), (unsigned long long)(fnext - fstart));
			die("layout", idx, n, d, F, S);
		}
		if (!(fstart <= idx && idx < fnext))
			die("layout-window", idx, n, d, F, S);
	}
	return 0;
}
