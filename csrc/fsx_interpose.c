/* fsx_interpose: LD_PRELOAD library that numbers the file-system operations a
 * process issues under one root directory and lets the harness own them.
 *
 * Counted operations (path or fd under FSX_ROOT):
 *   open/open64/openat/creat (reported as "openc" when O_CREAT is set,
 *   "open" otherwise), write, pwrite/pwrite64, ftruncate/ftruncate64, close,
 *   rename, mkdir, unlink/remove.
 *
 * Environment:
 *   FSX_ROOT      absolute path prefix of the tree that is watched
 *   FSX_LOG       file (outside the root) that gets one line per counted op:
 *                     OP <k> <name> <path-or-fd> <rc> <errno>
 *   FSX_FAIL_AT   k: op k fails with FSX_ERRNO without effect (close still
 *                 releases the descriptor)
 *   FSX_ERRNO     errno value for injected failures (default ENOSPC)
 *   FSX_PERSIST   1: after the injected failure every later op of the same
 *                 class fails as well (classes: W = write,pwrite,ftruncate,
 *                 openc,mkdir ; R = rename ; C = close ; O = open ; U = unlink)
 *   FSX_KILL_AT   k: the process kills itself with SIGKILL before op k
 *   FSX_FIFO_OUT / FSX_FIFO_IN   pause mode: before every counted op the
 *                 library writes "PRE <k> <name> <path>\n" to FIFO_OUT and
 *                 blocks until it reads one byte from FIFO_IN:
 *                     'c' continue, 'k' die by SIGKILL now.
 */
#define _GNU_SOURCE
#include <dlfcn.h>
#include <errno.h>
#include <fcntl.h>
#include <signal.h>
#include <stdarg.h>
#include <stdio.h>
#include <stdlib.h>
#include <string.h>
#include <sys/stat.h>
#include <sys/types.h>
#include <unistd.h>

#define MAXFD 4096

static int (*real_open)(const char *, int, ...);
static int (*real_open64)(const char *, int, ...);
static int (*real_openat)(int, const char *, int, ...);
static int (*real_openat64)(int, const char *, int, ...);
static int (*real_creat)(const char *, mode_t);
static ssize_t (*real_write)(int, const void *, size_t);
static ssize_t (*real_pwrite)(int, const void *, size_t, off_t);
static ssize_t (*real_pwrite64)(int, const void *, size_t, off_t);
static int (*real_ftruncate)(int, off_t);
static int (*real_ftruncate64)(int, off_t);
static int (*real_close)(int);
static int (*real_rename)(const char *, const char *);
static int (*real_mkdir)(const char *, mode_t);
static int (*real_unlink)(const char *);
static int (*real_remove)(const char *);

static int inited = 0;
static char root[2048];
static size_t rootlen = 0;
static int logfd = -1;
static long counter = 0;
static long fail_at = -1, kill_at = -1;
static int fail_errno = ENOSPC;
static int persist = 0;
static char failed_class = 0;
static int fifo_out = -1, fifo_in = -1;
static unsigned char watched[MAXFD];
static int busy = 0;

static void init(void)
{
	const char *s;
	if (inited) return;
	inited = 1;
	real_open = dlsym(RTLD_NEXT, "open");
	real_open64 = dlsym(RTLD_NEXT, "open64");
	real_openat = dlsym(RTLD_NEXT, "openat");
	real_openat64 = dlsym(RTLD_NEXT, "openat64");
	real_creat = dlsym(RTLD_NEXT, "creat");
	real_write = dlsym(RTLD_NEXT, "write");
	real_pwrite = dlsym(RTLD_NEXT, "pwrite");
	real_pwrite64 = dlsym(RTLD_NEXT, "pwrite64");
	real_ftruncate = dlsym(RTLD_NEXT, "ftruncate");
	real_ftruncate64 = dlsym(RTLD_NEXT, "ftruncate64");
	real_close = dlsym(RTLD_NEXT, "close");
	real_rename = dlsym(RTLD_NEXT, "rename");
	real_mkdir = dlsym(RTLD_NEXT, "mkdir");
	real_unlink = dlsym(RTLD_NEXT, "unlink");
	real_remove = dlsym(RTLD_NEXT, "remove");
	s = getenv("FSX_ROOT");
	if (s && *s)
	{
		strncpy(root, s, sizeof(root) - 1);
		rootlen = strlen(root);
	}
	s = getenv("FSX_LOG");
	if (s && *s)
		logfd = real_open(s, O_WRONLY | O_CREAT | O_APPEND | O_CLOEXEC, 0644);
	s = getenv("FSX_FAIL_AT");
	if (s && *s) fail_at = atol(s);
	s = getenv("FSX_KILL_AT");
	if (s && *s) kill_at = atol(s);
	s = getenv("FSX_ERRNO");
	if (s && *s) fail_errno = atoi(s);
	s = getenv("FSX_PERSIST");
	if (s && *s) persist = atoi(s);
	s = getenv("FSX_FIFO_OUT");
	if (s && *s) fifo_out = real_open(s, O_WRONLY | O_CLOEXEC);
	s = getenv("FSX_FIFO_IN");
	if (s && *s) fifo_in = real_open(s, O_RDONLY | O_CLOEXEC);
}

static int under_root(const char *path)
{
	if (!rootlen || !path) return 0;
	return strncmp(path, root, rootlen) == 0 && (path[rootlen] == '/' || path[rootlen] == 0);
}

static char class_of(const char *name)
{
	if (!strcmp(name, "rename")) return 'R';
	if (!strcmp(name, "close")) return 'C';
	if (!strcmp(name, "open")) return 'O';
	if (!strcmp(name, "unlink")) return 'U';
	return 'W';
}

/* returns 1 if the op must fail (errno set) */
static int gate(const char *name, const char *what, long *kout)
{
	long k = counter++;
	char buf[2300];
	*kout = k;
	if (fifo_out >= 0 && fifo_in >= 0)
	{
		char c = 'c';
		int n = snprintf(buf, sizeof(buf), "PRE %ld %s %s\n", k, name, what);
		ssize_t r = real_write(fifo_out, buf, n);
		(void)r;
		if (read(fifo_in, &c, 1) == 1 && c == 'k')
			kill(getpid(), SIGKILL);
	}
	if (kill_at == k)
		kill(getpid(), SIGKILL);
	if (fail_at == k)
	{
		failed_class = class_of(name);
		return 1;
	}
	if (persist && failed_class && failed_class == class_of(name))
		return 1;
	return 0;
}

static void logop(long k, const char *name, const char *what, long rc, int err)
{
	char buf[2300];
	int n;
	if (logfd < 0) return;
	n = snprintf(buf, sizeof(buf), "OP %ld %s %s %ld %d\n", k, name, what, rc, rc < 0 ? err : 0);
	ssize_t r = real_write(logfd, buf, n);
	(void)r;
}

static void fdname(int fd, char *out, size_t n) { snprintf(out, n, "fd%d", fd); }

static int do_open(int which, int dirfd, const char *path, int flags, mode_t mode)
{
	int fd, w;
	long k = -1;
	const char *name = (flags & O_CREAT) ? "openc" : "open";
	init();
	w = !busy && under_root(path);
	if (w)
	{
		busy = 1;
		if (gate(name, path, &k))
		{
			logop(k, name, path, -1, fail_errno);
			busy = 0;
			errno = fail_errno;
			return -1;
		}
		busy = 0;
	}
	switch (which)
	{
	case 0: fd = real_open(path, flags, mode); break;
	case 1: fd = real_open64(path, flags, mode); break;
	case 2: fd = real_openat(dirfd, path, flags, mode); break;
	default: fd = real_openat64(dirfd, path, flags, mode); break;
	}
	if (w)
	{
		int e = errno;
		if (fd >= 0 && fd < MAXFD) watched[fd] = 1;
		logop(k, name, path, fd, e);
		errno = e;
	}
	return fd;
}

int open(const char *path, int flags, ...)
{
	mode_t mode = 0;
	if (flags & (O_CREAT | O_TMPFILE)) { va_list ap; va_start(ap, flags); mode = va_arg(ap, int); va_end(ap); }
	return do_open(0, 0, path, flags, mode);
}
int open64(const char *path, int flags, ...)
{
	mode_t mode = 0;
	if (flags & (O_CREAT | O_TMPFILE)) { va_list ap; va_start(ap, flags); mode = va_arg(ap, int); va_end(ap); }
	return do_open(1, 0, path, flags, mode);
}
int openat(int dirfd, const char *path, int flags, ...)
{
	mode_t mode = 0;
	if (flags & (O_CREAT | O_TMPFILE)) { va_list ap; va_start(ap, flags); mode = va_arg(ap, int); va_end(ap); }
	return do_open(2, dirfd, path, flags, mode);
}
int openat64(int dirfd, const char *path, int flags, ...)
{
	mode_t mode = 0;
	if (flags & (O_CREAT | O_TMPFILE)) { va_list ap; va_start(ap, flags); mode = va_arg(ap, int); va_end(ap); }
	return do_open(3, dirfd, path, flags, mode);
}
int creat(const char *path, mode_t mode) { return do_open(0, 0, path, O_CREAT | O_WRONLY | O_TRUNC, mode); }

#define FD_GATE(NAME)                                   \
	long k = -1;                                        \
	char what[32];                                      \
	int w;                                              \
	init();                                             \
	w = !busy && fd >= 0 && fd < MAXFD && watched[fd];  \
	if (w)                                              \
	{                                                   \
		fdname(fd, what, sizeof(what));                 \
		busy = 1;                                       \
		if (gate(NAME, what, &k))                       \
		{                                               \
			logop(k, NAME, what, -1, fail_errno);       \
			busy = 0;                                   \
			errno = fail_errno;                         \
			return -1;                                  \
		}                                               \
		busy = 0;                                       \
	}

#define FD_DONE(NAME, rc)                 \
	if (w)                                \
	{                                     \
		int e = errno;                    \
		logop(k, NAME, what, (long)rc, e); \
		errno = e;                        \
	}

ssize_t write(int fd, const void *buf, size_t n)
{
	ssize_t rc;
	FD_GATE("write")
	rc = real_write(fd, buf, n);
	FD_DONE("write", rc)
	return rc;
}
ssize_t pwrite(int fd, const void *buf, size_t n, off_t off)
{
	ssize_t rc;
	FD_GATE("pwrite")
	rc = real_pwrite(fd, buf, n, off);
	FD_DONE("pwrite", rc)
	return rc;
}
ssize_t pwrite64(int fd, const void *buf, size_t n, off_t off)
{
	ssize_t rc;
	FD_GATE("pwrite")
	rc = real_pwrite64(fd, buf, n, off);
	FD_DONE("pwrite", rc)
	return rc;
}
int ftruncate(int fd, off_t len)
{
	int rc;
	FD_GATE("ftruncate")
	rc = real_ftruncate(fd, len);
	FD_DONE("ftruncate", rc)
	return rc;
}
int ftruncate64(int fd, off_t len)
{
	int rc;
	FD_GATE("ftruncate")
	rc = real_ftruncate64(fd, len);
	FD_DONE("ftruncate", rc)
	return rc;
}

int close(int fd)
{
	int rc;
	long k = -1;
	char what[32];
	int w;
	init();
	w = !busy && fd >= 0 && fd < MAXFD && watched[fd];
	if (w)
	{
		fdname(fd, what, sizeof(what));
		busy = 1;
		if (gate("close", what, &k))
		{
			/* a failing close still releases the descriptor */
			watched[fd] = 0;
			real_close(fd);
			logop(k, "close", what, -1, fail_errno);
			busy = 0;
			errno = fail_errno;
			return -1;
		}
		busy = 0;
		watched[fd] = 0;
	}
	rc = real_close(fd);
	FD_DONE("close", rc)
	return rc;
}

#define PATH_GATE(NAME, P)                      \
	long k = -1;                                \
	int w;                                      \
	init();                                     \
	w = !busy && under_root(P);                 \
	if (w)                                      \
	{                                           \
		busy = 1;                               \
		if (gate(NAME, P, &k))                  \
		{                                       \
			logop(k, NAME, P, -1, fail_errno);  \
			busy = 0;                           \
			errno = fail_errno;                 \
			return -1;                          \
		}                                       \
		busy = 0;                               \
	}

#define PATH_DONE(NAME, P, rc)      \
	if (w)                          \
	{                               \
		int e = errno;              \
		logop(k, NAME, P, rc, e);   \
		errno = e;                  \
	}

int rename(const char *a, const char *b)
{
	int rc;
	char both[2200];
	long k = -1;
	int w;
	init();
	w = !busy && (under_root(a) || under_root(b));
	if (w)
	{
		snprintf(both, sizeof(both), "%s>%s", a, b);
		busy = 1;
		if (gate("rename", both, &k))
		{
			logop(k, "rename", both, -1, fail_errno);
			busy = 0;
			errno = fail_errno;
			return -1;
		}
		busy = 0;
	}
	rc = real_rename(a, b);
	if (w)
	{
		int e = errno;
		logop(k, "rename", both, rc, e);
		errno = e;
	}
	return rc;
}
int mkdir(const char *p, mode_t m)
{
	int rc;
	PATH_GATE("mkdir", p)
	rc = real_mkdir(p, m);
	PATH_DONE("mkdir", p, rc)
	return rc;
}
int unlink(const char *p)
{
	int rc;
	PATH_GATE("unlink", p)
	rc = real_unlink(p);
	PATH_DONE("unlink", p, rc)
	return rc;
}
int remove(const char *p)
{
	int rc;
	PATH_GATE("unlink", p)
	rc = real_remove(p);
	PATH_DONE("unlink", p, rc)
	return rc;
}
