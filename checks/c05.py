"""C05 - write-once, forward-only recording with atomic rejection (DESIGN.md section 4, C05).

The history machinery here is shared with C19 (checks/c19.py): one generated history yields the
C05 verdicts (rejection, atomicity, "as if never made") and the C19 verdicts (counters, last file).
"""
from __future__ import annotations

import os

import h5py
import numpy as np
from hypothesis import strategies as st

from vlib import rfharness, rfmodel, strategies as S, treeutil
from vlib.campaign import Result

PID = "C05"
LEVEL = "exploration"
TECHNIQUE = "stateful property-based testing: generated histories of valid and invalid calls (Python writer and C API under ASan/UBSan), byte-level tree snapshots around every rejected call, differential run without the rejected calls"
RULE = (
    "Histories of 3-15 (quick) / 3-40 (thorough) calls are generated step by step against the model state: valid "
    "rf_write / rf_write_blocks calls and invalid ones derived from a valid call by one mutation (index at or "
    "before written data, first offset != 0, equal / decreasing offsets or indices, overlapping blocks, offset past "
    "the end, length mismatch). Through the Python writer and, interactively, the C API. For each rejected call: an "
    "error is reported, the channel tree (names, sizes, SHA-256, open tmp file included) and all getters are "
    "identical before and after. At the end the same history without the rejected calls is recorded in a sibling "
    "directory and both trees must hold equal rf_data / rf_data_index / attributes (except computer_time), and the "
    "read-back equals the reference model. Non-trivial: >= 1 rejected call with a valid write before and after it."
)
ASSUMPTIONS = [
    "overlay build against system HDF5 1.10.8",
    "chunk layout is not compared between the two runs (the C library picks the HDF5 chunk size from the first call's length even when that call is rejected; no API observes it)",
]
FLOORS = {"nontrivial": 0.5}

KINDS = ["past", "first-offset", "offsets-nonincreasing", "indices-nonincreasing", "overlap", "offset-past-end",
         "lenmismatch"]


def budget(tier):
    return {"examples": 110 if tier == "quick" else 300, "shards": 1 if tier == "quick" else 16,
            "examples2": 200 if tier == "quick" else 100}


# second stage: "a sample, once written, never changes value" - also when a later session (a restarted writer) collides with
# what an earlier session recorded
SESSION_KEEP = ("finalized-file-changed", "union-read-wrong-value")


def strategy2(tier):
    from checks import c11
    return c11.session_strategy(tier)


# ------------------------------------------------------------------ generation
def mutate(draw, op, m, api):
    """Return an invalid variant of a valid op (or None)."""
    nxt = m.next_avail
    kinds = list(KINDS)
    if api == "c":
        kinds.remove("lenmismatch")
    kind = draw(st.sampled_from(kinds))
    if op["op"] == "w":
        if kind != "past" and draw(st.integers(0, 1)) == 0:
            # turn into a single-block description so block mutations apply
            op = {"op": "b", "len": op["len"], "g": [op["idx"]], "d": [0]}
        else:
            kind = "past"
    op = {k: (list(v) if isinstance(v, list) else v) for k, v in op.items()}
    if kind == "past":
        if nxt == 0:
            return None
        cands = {0, nxt - 1, max(0, nxt - 2), nxt // 2}
        for r in m.runs[-2:]:
            cands.add(max(0, r[0] - m.cfg["start"] + r[1] // 2))
        t = draw(st.sampled_from(sorted(c for c in cands if c < nxt)))
        if op["op"] == "w":
            op["idx"] = t
        else:
            sh = op["g"][0] - t
            op["g"] = [g - sh for g in op["g"]]
        return op
    if op["op"] != "b" or op["len"] == 0:
        return None
    g, d, L = op["g"], op["d"], op["len"]
    k = len(g)
    if kind == "first-offset":
        op["d"] = [x + 1 for x in d]
        op["len"] = L + 1
        return op
    if kind == "offset-past-end":
        op["d"][-1] = L + draw(st.sampled_from([0, 0, 1, 5]))
        if k >= 2 and op["d"][-1] <= op["d"][-2]:
            return None
        return op
    if kind == "lenmismatch":
        if draw(st.integers(0, 1)) and k >= 1:
            op["g"] = g + [g[-1] + L + 5]
        else:
            op["d"] = d + [L - 1] if L - 1 > d[-1] else d[:-1]
        if len(op["g"]) == len(op["d"]) or len(op["d"]) == 0 or len(op["g"]) == 0:
            return None
        op["raw"] = True
        return op
    if k < 2:
        return None
    # half of the time the malformed step is the LAST one (possibly several files after the first block)
    j = k - 1 if draw(st.integers(0, 1)) else draw(st.integers(1, k - 1))
    if kind == "offsets-nonincreasing":
        op["d"][j] = d[j - 1] - (1 if d[j - 1] > 0 and draw(st.integers(0, 1)) else 0)
    elif kind == "indices-nonincreasing":
        op["g"][j] = g[j - 1] - (1 if g[j - 1] > 0 and draw(st.integers(0, 1)) else 0)
    elif kind == "overlap":
        step = d[j] - d[j - 1]
        newg = g[j - 1] + step - draw(st.integers(1, max(1, min(step, 3))))
        op["g"][j] = newg
        # keep later indices increasing so that only this step is wrong
        for t in range(j + 1, k):
            if op["g"][t] <= op["g"][t - 1]:
                op["g"][t] = op["g"][t - 1] + (d[t] - d[t - 1]) + 1
    return op


def multi_file_blocks(draw, cfg, nxt):
    """A valid block description with one short block in each of 3-4 consecutive files."""
    spf = rfmodel.samples_per_file_max(cfg)
    nb = draw(st.integers(3, 4))
    k = cfg["start"] + nxt + draw(st.integers(0, max(0, spf // 2)))
    g, d, off = [], [], 0
    for _ in range(nb):
        ln = draw(st.integers(1, max(1, min(spf // 2, 20))))
        g.append(k - cfg["start"])
        d.append(off)
        off += ln
        # first sample of the next file, plus a small offset
        hi = rfmodel.window(cfg, rfmodel.file_ms(cfg, k + ln - 1))[1]
        k = max(hi, k + ln + 1) + draw(st.integers(0, max(0, spf // 3)))
    return {"op": "b", "len": off, "g": g, "d": d}


def why_invalid(m, op):
    if op.get("raw") and len(op["g"]) != len(op["d"]):
        # Python checks the first index and first offset before the lengths; any reason is a rejection
        return "lenmismatch"
    return m.why_invalid(op)


@st.composite
def histories(draw, tier, spf_cap=256):
    api = draw(st.sampled_from(["py", "c"]))
    cfg = draw(S.rf_configs(spf_cap=spf_cap, boundary_p=0.5))
    max_steps = 15 if tier == "quick" else draw(st.sampled_from([15, 25, 40]))
    nsteps = draw(st.integers(3, max_steps))
    m = rfmodel.Model(cfg)
    ops = []
    single_block_only = api == "c" and cfg["cont"]
    for i in range(nsteps):
        op, _ = S.draw_op(draw, cfg, m.next_avail, allow_blocks=True, allow_empty=True, max_files=2,
                          max_blocks=1 if single_block_only else 4)
        want_invalid = draw(st.integers(0, 9)) < 4
        if want_invalid:
            # mutate a multi-block description where possible
            base = op
            if draw(st.integers(0, 1 if api == "c" else 2)) == 0 and not cfg["cont"]:
                base = multi_file_blocks(draw, cfg, m.next_avail)
            elif op["op"] == "w" or len(op.get("g", [])) < 2:
                alt, _ = S.draw_op(draw, cfg, m.next_avail, allow_blocks=True, allow_empty=False, max_files=2, max_blocks=4)
                if alt["op"] == "b":
                    base = alt
            bad = mutate(draw, base, m, api)
            if bad is not None and why_invalid(m, bad) is not None:
                bad["cid"] = i
                bad["expect"] = why_invalid(m, bad)
                ops.append(bad)
                m.skip_call()
                continue
        op["cid"] = i
        op["expect"] = None
        ops.append(op)
        m.apply(op)
    reads = draw(S.read_ranges(m, 4))
    # length class of the channel directory's path: 0 = short scratch path, 1 = about 300, 2 = about 600 characters
    deep = draw(st.sampled_from([0, 0, 0, 1, 2]))
    return {"cfg": cfg, "ops": ops, "api": api, "reads": reads, "deep": deep}


def strategy(tier):
    return histories(tier)


def deep_dir(top, deep):
    """Parent directory of the channel: ordinary components, total length in the class drawn (well below PATH_MAX and
    below the 1024-byte path buffers of the C library)."""
    d = os.path.join(top, "a")
    i = 0
    while deep and len(d) < 300 * deep:
        d = os.path.join(d, "archive_%02d_campaign_2014_site_north" % i)
        i += 1
    return d


def directed_cases(tier):
    """Malformed block descriptions whose malformed step lies in a LATER file than the first block (both APIs)."""
    cfg = {"kind": "i", "size": 2, "order": "<", "cplx": 0, "form": "struct", "nsub": 1, "n": 100, "d": 1, "F": 1000, "S": 10,
           "cont": 0, "comp": 0, "checksum": 0, "salt": 9, "uuid": "verif", "start": 170000000000}
    bads = [
        {"op": "b", "len": 40, "g": [20, 150, 140], "d": [0, 10, 30]},   # indices decrease in the third file
        {"op": "b", "len": 40, "g": [20, 150, 300], "d": [0, 10, 10]},   # offsets repeat
        {"op": "b", "len": 40, "g": [20, 150, 155], "d": [0, 10, 30]},   # overlap: 20 samples in a step of 5
        {"op": "b", "len": 40, "g": [20, 150, 300], "d": [0, 10, 40]},   # last offset == len
    ]
    out = []
    for api in ("py", "c"):
        for bad in bads:
            ops = [{"op": "w", "idx": 0, "len": 10, "cid": 0, "expect": None}, dict(bad, cid=1),
                   {"op": "w", "idx": 10, "len": 5, "cid": 2, "expect": None},
                   {"op": "w", "idx": 400, "len": 5, "cid": 3, "expect": None}]
            case = relabel({"cfg": cfg, "ops": ops, "api": api, "reads": []})
            out.append(case)
    return out


# ------------------------------------------------------------------ execution
def model_last_paths(cfg, m, chdir):
    if m.last_index is None:
        return "", ""
    rel = rfmodel.rel_path(cfg, m.last_index)
    return os.path.join(chdir, rel), os.path.join(chdir, rel.split("/")[0]) + "/"


def compare_trees(cha, chb):
    """Semantic comparison of two channel directories.  Returns list of differences."""
    out = []
    fa, oa = rfharness.raw_files(cha)
    fb, ob = rfharness.raw_files(chb)
    if sorted(fa) != sorted(fb):
        out.append("file sets differ: only-with-rejections %s only-without %s" % (
            sorted(set(fa) - set(fb))[:3], sorted(set(fb) - set(fa))[:3]))
        return out
    if sorted(oa) != sorted(ob):
        out.append("other entries differ: %s vs %s" % (sorted(oa)[:4], sorted(ob)[:4]))
    for rel in sorted(fa):
        a, b = fa[rel], fb[rel]
        if "error" in a or "error" in b:
            out.append("%s unreadable: %s / %s" % (rel, a.get("error"), b.get("error")))
            continue
        if a["index"] != b["index"]:
            out.append("%s rf_data_index %r vs %r" % (rel, a["index"][:4], b["index"][:4]))
        if a["shape"] != b["shape"] or a["dtype"] != b["dtype"]:
            out.append("%s rf_data shape/dtype %r %r vs %r %r" % (rel, a["shape"], a["dtype"], b["shape"], b["dtype"]))
        else:
            with h5py.File(a["path"], "r") as f1, h5py.File(b["path"], "r") as f2:
                d1 = np.ascontiguousarray(f1["rf_data"][...]).tobytes()
                d2 = np.ascontiguousarray(f2["rf_data"][...]).tobytes()
                if d1 != d2:
                    out.append("%s rf_data differs" % rel)
        ka = {k: v for k, v in a["attrs"].items() if k != "computer_time"}
        kb = {k: v for k, v in b["attrs"].items() if k != "computer_time"}
        if ka != kb:
            out.append("%s attributes differ: %r" % (rel, {k: (ka.get(k), kb.get(k)) for k in set(ka) | set(kb) if ka.get(k) != kb.get(k)}))
    return out


def run_history(case):
    """Execute a history.  Returns (fails05, fails19, info)."""
    cfg, ops, api = case["cfg"], case["ops"], case["api"]
    f05, f19 = [], []
    tag = ":" + api
    m = rfmodel.Model(cfg)
    info = {"rejected": 0, "valid": 0}
    with rfharness.scratch("c05") as top:
        adir = deep_dir(top, case.get("deep", 0))
        ch = os.path.join(adir, "ch0")
        os.makedirs(ch)
        sess = None
        w = None
        try:
            if api == "py":
                with rfharness.quiet_fds():
                    w = rfharness.open_py_writer(cfg, ch)
            else:
                sess = rfharness.DriverSession(top, asan=True)
                r = sess.init(cfg, ch)
                if r is None or r["rc"] != 0:
                    f05.append(("init-failed" + tag, repr(r)))
                    return f05, f19, info
            for i, op in enumerate(ops):
                expect = op.get("expect")
                before_snap = treeutil.snapshot(ch) if expect else None
                if api == "py":
                    before_get = rfharness.py_getters(w)
                    r = rfharness.py_issue(w, cfg, op, op["cid"])
                    ok = r[0] == "ok"
                    after_get = rfharness.py_getters(w)
                    ret = r[1]
                else:
                    r = sess.op(op)
                    if r is None:
                        rc, err = sess.finish()
                        sess = None
                        sig = "sanitizer" if rc in (97, 98) or "Sanitizer" in err or "runtime error" in err else "driver-crash"
                        f05.append((sig + tag, "op %d %r rc=%s %s" % (i, {k: op[k] for k in op if k != 'cid'}, rc, err[-900:])))
                        return f05, f19, info
                    ok = r["rc"] == 0
                    after_get = {"next": r["gi"], "last_file": r["last_file"], "last_dir": r["last_dir"]}
                    before_get = None
                    ret = r["gi"]
                if expect:
                    info["rejected"] += 1
                    m.skip_call()
                    if ok:
                        f05.append(("invalid-accepted:%s%s" % (expect, tag), "op %d %r accepted (ret %r)" % (i, _brief(op), ret)))
                        # state is now undefined; stop judging this history
                        return f05, f19, info
                    after_snap = treeutil.snapshot(ch)
                    if after_snap != before_snap:
                        f05.append(("rejected-call-changed-tree:%s%s" % (expect, tag), "op %d %r: %s" % (i, _brief(op), treeutil.diff(before_snap, after_snap))))
                    if api == "py":
                        if after_get != before_get:
                            f05.append(("rejected-call-changed-state:%s%s" % (expect, tag), "op %d %r: %r -> %r" % (i, _brief(op), before_get, after_get)))
                            f19.append(("counters-changed-by-rejected-call" + tag, "op %d %r: %r -> %r" % (i, _brief(op), before_get, after_get)))
                        elif after_snap != before_snap:
                            # the getters did not move although the recording did: bookkeeping no longer describes it
                            f19.append(("recording-changed-by-rejected-call-but-counters-not" + tag, "op %d %r: %s" % (i, _brief(op), treeutil.diff(before_snap, after_snap))))
                    else:
                        mf, md = model_last_paths(cfg, m, ch)
                        if after_get["next"] != m.next_avail:
                            f05.append(("rejected-call-changed-state:%s%s" % (expect, tag), "op %d next %d != %d" % (i, after_get["next"], m.next_avail)))
                        if (after_get["last_file"], after_get["last_dir"]) != (mf, md):
                            f19.append(("lastfile-after-reject" + tag, "op %d %r != %r" % (i, (after_get["last_file"], after_get["last_dir"]), (mf, md))))
                    continue
                info["valid"] += 1
                if not ok:
                    f05.append(("valid-write-rejected" + tag, "op %d %r -> %r" % (i, _brief(op), ret)))
                    return f05, f19, info
                m.apply(op)
                # ---- C19: counters after every accepted call
                if ret != m.next_avail:
                    f19.append(("return-value" + tag, "op %d %r returned %r, model next %d" % (i, _brief(op), ret, m.next_avail)))
                if after_get["next"] != m.next_avail:
                    f19.append(("next-available" + tag, "op %d %r next %r model %d" % (i, _brief(op), after_get["next"], m.next_avail)))
                if api == "py":
                    if after_get["written"] != m.total_written:
                        f19.append(("total-written" + tag, "op %d %r written %r model %d" % (i, _brief(op), after_get["written"], m.total_written)))
                    if after_get["gap"] != m.total_gap:
                        f19.append(("total-gap" + tag, "op %d %r gap %r model %d" % (i, _brief(op), after_get["gap"], m.total_gap)))
                    if after_get["written"] + after_get["gap"] != after_get["next"]:
                        f19.append(("sum-invariant" + tag, "op %d %r written %r + gap %r != next %r" % (i, _brief(op), after_get["written"], after_get["gap"], after_get["next"])))
                mf, md = model_last_paths(cfg, m, ch)
                if (after_get["last_file"], after_get["last_dir"]) != (mf, md):
                    f19.append(("last-file" + tag, "op %d %r last %r model %r" % (i, _brief(op), (after_get["last_file"], after_get["last_dir"]), (mf, md))))
            # ---- close
            if api == "py":
                with rfharness.quiet_fds():
                    w.close()
                g = rfharness.py_getters(w)
                mf, md = model_last_paths(cfg, m, ch)
                if (g["last_file"], g["last_dir"]) != (mf, md):
                    f19.append(("last-file-after-close" + tag, "%r model %r" % ((g["last_file"], g["last_dir"]), (mf, md))))
                if (g["next"], g["written"], g["gap"]) != (m.next_avail, m.total_written, m.total_gap):
                    f19.append(("counters-after-close" + tag, "%r model %r" % ((g["next"], g["written"], g["gap"]), (m.next_avail, m.total_written, m.total_gap))))
                w = None
            else:
                sess.close()
                rc, err = sess.finish()
                sess = None
                if rc in (97, 98) or "Sanitizer" in err or "runtime error" in err:
                    f05.append(("sanitizer" + tag, err[-900:]))
                elif rc != 0:
                    f05.append(("driver-crash" + tag, "rc=%s %s" % (rc, err[-500:])))
        finally:
            if w is not None:
                with rfharness.quiet_fds():
                    w.close()
            if sess is not None:
                sess.finish()
        if f05:
            return f05, f19, info
        # ---- read back == model (a sample once written never changes value)
        if m.runs:
            try:
                with rfharness.quiet_fds():
                    rd = rfharness.drf().DigitalRFReader(adir)
                b = m.bounds()
                for a, e in [[max(0, b[0] - 2), b[1] + 2]] + list(case.get("reads", [])):
                    f = rfharness.check_read(cfg, m, rd, "ch0", a, e)
                    if f:
                        f05.append(("readback-" + f[0] + tag, f[1]))
                        break
                rd.close()
            except Exception as e:
                f05.append(("readback-exception" + tag, "%s: %s" % (type(e).__name__, e)))
        # ---- differential: the same history with the rejected calls removed
        if info["rejected"]:
            chb = os.path.join(top, "b", "ch0")
            os.makedirs(chb)
            valid = [op for op in ops if not op.get("expect")]
            if api == "py":
                rfharness.run_python(cfg, valid, chb)
            else:
                rfharness.run_driver(cfg, valid, chb, os.path.join(top, "b"), asan=False)
            d = compare_trees(ch, chb)
            if d:
                f05.append(("differs-from-history-without-rejected" + tag, "; ".join(d[:3])))
    return f05, f19, info


def _brief(op):
    return {k: v for k, v in op.items() if k in ("op", "idx", "len", "g", "d")}


def classify(case, res):
    cfg, ops = case["cfg"], case["ops"]
    rej = [i for i, op in enumerate(ops) if op.get("expect")]
    val = [i for i, op in enumerate(ops) if not op.get("expect") and op["len"] > 0]
    sandwiched = any(any(v < r for v in val) and any(v > r for v in val) for r in rej)
    for r in rej:
        res.cls("reject:" + ops[r]["expect"])
    res.cls("api:" + case["api"])
    if case.get("deep"):
        res.cls("long-channel-path")
    if cfg["cont"]:
        res.cls("continuous")
    return sandwiched


def run_case(case):
    if case.get("kind") == "sessions":
        from checks import c11
        return c11.run_sessions(case, SESSION_KEEP)
    res = Result()
    res.nontrivial = classify(case, res)
    f05, f19, info = run_history(case)
    res.evaluations = max(1, len(case["ops"]))
    seen = set()
    for sig, d in f05:
        if sig not in seen:
            seen.add(sig)
            res.fail(sig, d)
    return res


def relabel(case):
    """Recompute every op's expectation against the model (needed after ops were dropped)."""
    m = rfmodel.Model(case["cfg"])
    ops = []
    for op in case["ops"]:
        op = dict(op)
        op["expect"] = why_invalid(m, op)
        if op["expect"] is None:
            m.apply(op)
        else:
            m.skip_call()
        ops.append(op)
    return dict(case, ops=ops)


def shrink_candidates(case):
    if case.get("kind") == "sessions":
        from checks import c11
        yield from c11.session_shrink(case)
        return
    ops = case["ops"]
    for i in range(len(ops) - 1, -1, -1):
        if len(ops) > 1:
            yield relabel(dict(case, ops=ops[:i] + ops[i + 1:]))
    if case.get("reads"):
        yield dict(case, reads=[])
    if case.get("deep"):
        yield dict(case, deep=0)
    cfg = case["cfg"]
    for key, val in (("nsub", 1), ("cplx", 0), ("comp", 0), ("checksum", 0), ("order", "<")):
        if cfg[key] != val:
            yield dict(case, cfg=dict(cfg, **{key: val}))
