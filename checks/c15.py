"""C15 - live event filter agrees with listing; finalizing rename is a creation (DESIGN.md section 4, C15)."""
from __future__ import annotations

import datetime
import itertools
import os

from hypothesis import strategies as st

from vlib import rfharness
from vlib.campaign import Result

PID = "C15"
LEVEL = "exploration"
ENGINE = "enum+pbt"
TECHNIQUE = "exhaustive enumeration of the bounded event/path grammar, differential against lsdrf on a scratch tree holding exactly that path; Hypothesis adds paths from a wider grammar"
RULE = (
    "Every tuple of the bounded grammar is dispatched: paths = {valid, 3 malformed subdirectories} x 13 file names "
    "(rf / other-prefix / md / tmp.* / wrong fraction width / wrong extension / empty stamp / missing @) + 6 "
    "channel-level names (properties files, tmp.drf_properties.h5, data file directly in the channel), events = "
    "created, modified, deleted (file and directory variants) and moved (all src x dest), 15 include-flag "
    "combinations x 13 windows (start, end in {None, t-1ms, t, t+1ms}, start <= end). Oracle: the path is accepted "
    "iff lsdrf with the same flags and window lists it in a scratch tree containing exactly that path inside a "
    "channel of the file's own kind (a listed metadata file whose stamp is before start is the forward-fill aside and "
    "counts as not in the window). Moves: matching-dest only -> on_created(dest); matching-src only -> "
    "on_deleted(src); both -> on_moved when both are in the window, nothing when both are outside, unspecified "
    "(counted, not judged) when they differ; directory events never dispatch. Each enumerated tuple is distinct; "
    "non-trivial = near-miss path, stamp on a window edge, or a move."
    ' Additionally a file of a sub-second cadence with window edges off the millisecond grid, naive datetimes, ignore_regexes for names that can never match, synthetic events; and three LIVE scenarios with the real DirWatcher threads (tree present at start and growing, root arriving complete after the start, root deleted and replaced) judged with the sentinel protocol of vlib/live.py.'
)
RULE += ' Since rounds 7-8: the metadata channel nested inside its RF channel, windows between milliseconds.'
ASSUMPTIONS = ["fixed parts in lower case and files at the format's depth (the property's grammar)",
               "events are fed to DigitalRFEventHandler.dispatch directly; no observer thread is started"]
FLOORS = {}
T = 1700000000  # file time in seconds (a multiple of 10 so that the valid subdirectory below is consistent)
SUB_OK = "2023-11-14T22-13-20"
SUBS = [SUB_OK, "2023-11-14T22:13:20", "12023-11-14T22-13-20", "2023-11-14T22-13"]
FILES = ["rf@%d.000.h5" % T, "x@%d.000.h5" % T, "md@%d.h5" % T, "tmp.rf@%d.000.h5" % T, "tmp.md@%d.h5" % T,
         "rf@%d.00.h5" % T, "rf@%d.000.hdf5" % T, "rf@.h5", "rf%d.000.h5" % T, "metadata@%d.h5" % T,
         "rf@%d.0000.h5" % T, "md@%d.h5x" % T, "a@b@%d.000.h5" % T,
         "rf@%d.250.h5" % T,  # a file of a sub-second cadence (time T + 250 ms)
         "rf@%s.000.h5" % "".join(chr(0xFF10 + int(c)) for c in str(T)), "md@%s.h5" % "".join(chr(0x0660 + int(c)) for c in str(T))]  # non-ASCII digits
CHFILES = ["drf_properties.h5", "dmd_properties.h5", "metadata.h5", "tmp.drf_properties.h5", "rf@%d.000.h5" % T, "md@%d.h5" % T]


def kind_of(fn):
    """Which kind of channel the scratch tree gives this file: decided by the stamp format (name@secs.h5 is a
    metadata-style name, name@secs.mmm.h5 an RF-style name), for property files by their name."""
    base = fn[4:] if fn.startswith("tmp.") else fn
    if base.startswith("dmd_"):
        return "dmd"
    if "@" in base and base.endswith(".h5"):
        stamp = base.rsplit("@", 1)[1][:-3]
        if stamp.isdigit() and stamp.isascii():
            return "dmd"
        if len(stamp) > 4 and stamp[-4] == "." and stamp[-3:].isdigit() and stamp[:-4].isdigit() and stamp.isascii():
            return "rf"
    if base.startswith(("md@", "metadata@")):
        return "dmd"
    return "rf"


def grammar_paths():
    out = []
    for sub in SUBS:
        for fn in FILES:
            ch = "ch" + kind_of(fn)
            out.append((ch, sub, fn))
    for fn in CHFILES:
        if fn == "metadata.h5":
            out.append(("chleg", None, fn))
        else:
            out.append(("ch" + kind_of(fn), None, fn))
    # the usual layout of a recording: the metadata channel lies INSIDE its RF channel (top/chrf/metadata/...)
    for sub in SUBS:
        for fn in FILES:
            if kind_of(fn) == "dmd":
                out.append(("chrf/metadata", sub, fn))
    out.append(("chrf/metadata", None, "dmd_properties.h5"))
    return out


FLAGS = [f for f in itertools.product([True, False], repeat=4) if any(f)]
# (start offset ms, end offset ms, naive): the third field says whether the window is handed over as naive datetimes,
# which handler and listing both document to mean UTC (the checks run with a non-UTC local time zone)
WINDOWS = [(s, e, nv) for s in (None, -1, 0, 1) for e in (None, -1, 0, 1) if s is None or e is None or s <= e
           for nv in ((False, True) if (s is not None or e is not None) else (False,))]


# ... and window edges around the 250 ms file, including edges that are not a whole number of milliseconds
WINDOWS += [(s, None, False) for s in (249.5, 250, 250.5)] + [(None, e, False) for e in (249.5, 250, 250.5)]


def _nv(win):
    return len(win) > 2 and bool(win[2])


def dt(off, naive=False):
    if off is None:
        return None
    t = datetime.datetime(1970, 1, 1, tzinfo=datetime.timezone.utc) + datetime.timedelta(seconds=T, milliseconds=off)
    return t.replace(tzinfo=None) if naive else t


def budget(tier):
    return {"examples": 150 if tier == "quick" else 1500, "shards": 1}


class Oracle:
    """Memoised listing of a scratch tree that holds exactly one path."""

    def __init__(self, base):
        self.base = base
        self.memo = {}
        self.trees = {}
        self.n = 0
        self.fail_cases = []  # replayable case for every recorded failure (parallel to Result.failures)

    def tree_for(self, p):
        ch, sub, fn = p
        key = (ch, sub, fn)
        if key in self.trees:
            return self.trees[key]
        self.n += 1
        root = os.path.join(self.base, "t%d" % self.n)
        chd = os.path.join(root, ch)
        os.makedirs(chd)
        if ch == "chleg":
            pass  # the legacy properties file is the path itself
        elif "/" in ch:
            open(os.path.join(root, ch.split("/")[0], "drf_properties.h5"), "wb").close()
            open(os.path.join(chd, "dmd_properties.h5"), "wb").close()
        else:
            open(os.path.join(chd, "drf_properties.h5" if ch.endswith("rf") else "dmd_properties.h5"), "wb").close()
        full = os.path.join(chd, fn) if sub is None else os.path.join(chd, sub, fn)
        os.makedirs(os.path.dirname(full), exist_ok=True)
        open(full, "wb").close()
        self.trees[key] = (root, full)
        return root, full

    def listed(self, p, flags, win):
        key = (p, flags, win)
        if key not in self.memo:
            root, full = self.tree_for(p)
            drf = rfharness.drf()
            out = drf.lsdrf(root, include_drf=flags[0], include_dmd=flags[1], include_drf_properties=flags[2],
                            include_dmd_properties=flags[3], starttime=dt(win[0], _nv(win)), endtime=dt(win[1], _nv(win)))
            ok = full in out
            if ok and win[0] is not None:
                # the forward-fill aside: a metadata data file listed although its stamp is before start
                fn = p[2]
                if p[1] is not None and "@" in fn:
                    stamp = fn.rsplit("@", 1)[1]
                    if stamp.endswith(".h5") and stamp[:-3].isdigit():
                        if int(stamp[:-3]) * 1000 < T * 1000 + win[0]:
                            ok = False
            self.memo[key] = ok
        return self.memo[key]

    def matches(self, p, flags):
        return self.listed(p, flags, (None, None))


# names that the path grammar rejects anyway: telling the handler to ignore them (a documented option) changes nothing
# (hidden names are NOT in this list: ".tmp@1700000000.000.h5" is a legal data file name - any prefix before "@" is)
IGNORE_NONFINAL = [r".*/tmp\.[^/]*$", r".*\.bak$"]


def make_handler(flags, win, log, ignore=None):
    drf = rfharness.drf()
    from digital_rf import watchdog_drf

    class Rec(watchdog_drf.DigitalRFEventHandler):
        def on_created(self, event):
            log.append(("created", event.src_path, None))

        def on_deleted(self, event):
            log.append(("deleted", event.src_path, None))

        def on_modified(self, event):
            log.append(("modified", event.src_path, None))

        def on_moved(self, event):
            log.append(("moved", event.src_path, event.dest_path))

    return Rec(starttime=dt(win[0], _nv(win)), endtime=dt(win[1], _nv(win)), include_drf=flags[0], include_dmd=flags[1],
               include_drf_properties=flags[2], include_dmd_properties=flags[3], **({"ignore_regexes": ignore} if ignore else {}))


def judge_tuple(orc, paths, res, count, flags_list=None, windows=None):
    """Enumerate events over the given paths; returns (evaluations, nontrivial, unspecified)."""
    from watchdog import events as ev

    n = nt = unspec = 0
    for flags in flags_list or FLAGS:
        for win in windows or WINDOWS:
            log = []
            h = make_handler(flags, win, log)
            h_ign = make_handler(flags, win, log, IGNORE_NONFINAL) if tuple(win[:2]) == (None, None) else None
            for p in paths:
                _root, full = orc.tree_for(p)
                acc = orc.listed(p, flags, win)
                for name, cls in (("created", ev.FileCreatedEvent), ("modified", ev.FileModifiedEvent), ("deleted", ev.FileDeletedEvent)):
                    del log[:]
                    h.dispatch(cls(full))
                    n += 1
                    exp = [(name, full, None)] if acc else []
                    if log != exp:
                        res.fail("filter-disagrees-with-listing:%s:%s" % (name, "accepts" if log else "rejects"),
                                 "%s %s flags=%r window=%r: handler %r, listing %s" % (name, full, flags, win, log, acc))
                        orc.fail_cases.append({"paths": [list(p), ["chrf", SUB_OK, "zz@1.000.h5"]], "flags": list(flags), "win": list(win)})
                    if h_ign is not None:
                        # events that the observer synthesises (for the files of a directory that was moved as a whole) are
                        # events like any other
                        del log[:]
                        h.dispatch(cls(full, is_synthetic=True))
                        n += 1
                        if log != exp:
                            res.fail("synthetic-event-treated-differently:%s" % name, "%s %s (is_synthetic) flags=%r: handler %r, listing %s" % (name, full, flags, log, acc))
                            orc.fail_cases.append({"paths": [list(p), ["chrf", SUB_OK, "zz@1.000.h5"]], "flags": list(flags), "win": list(win)})
                for cls in (ev.DirCreatedEvent, ev.DirModifiedEvent, ev.DirDeletedEvent):
                    del log[:]
                    h.dispatch(cls(full))
                    n += 1
                    if log:
                        res.fail("directory-event-dispatched", "%s %s -> %r" % (cls.__name__, full, log))
                        orc.fail_cases.append({"paths": [list(p), ["chrf", SUB_OK, "zz@1.000.h5"]], "flags": list(flags), "win": list(win)})
                nt += 1 if (p[2] not in (FILES[0], FILES[2]) or p[1] != SUB_OK or tuple(win[:2]) != (None, None)) else 0
            for ps in paths:
                for pd in paths:
                    if ps == pd:
                        continue
                    src, dst = orc.tree_for(ps)[1], orc.tree_for(pd)[1]
                    ms, md_ = orc.matches(ps, flags), orc.matches(pd, flags)
                    ins, ind = orc.listed(ps, flags, win), orc.listed(pd, flags, win)
                    if h_ign is not None:
                        # a handler told to ignore names that can never match (tmp. files, *.bak, dot files) behaves alike
                        del log[:]
                        h_ign.dispatch(ev.FileMovedEvent(src, dst))
                        ign_log = list(log)
                    del log[:]
                    h.dispatch(ev.FileMovedEvent(src, dst))
                    n += 1
                    nt += 1
                    if h_ign is not None:
                        plain_log = list(log)
                        del log[:]
                        h.dispatch(ev.FileMovedEvent(src, dst, is_synthetic=True))
                        if log != plain_log:
                            res.fail("synthetic-event-treated-differently:moved", "moved %s -> %s (is_synthetic) flags=%r: %r, as an ordinary event %r" % (src, dst, flags, log, plain_log))
                            orc.fail_cases.append({"paths": [list(ps), list(pd)], "flags": list(flags), "win": list(win)})
                        del log[:]
                        log.extend(plain_log)
                    if h_ign is not None and ign_log != log:
                        res.fail("ignore-regexes-change-dispatch", "moved %s -> %s flags=%r: %r with ignore_regexes for non-final names, %r without" % (src, dst, flags, ign_log, log))
                        orc.fail_cases.append({"paths": [list(ps), list(pd)], "flags": list(flags), "win": list(win)})
                    if md_ and not ms:
                        exp = [("created", dst, None)] if ind else []
                    elif ms and not md_:
                        exp = [("deleted", src, None)] if ins else []
                    elif not ms and not md_:
                        exp = []
                    elif ins and ind:
                        exp = [("moved", src, dst)]
                    elif not ins and not ind:
                        exp = []
                    else:
                        unspec += 1
                        continue
                    if log != exp:
                        res.fail("move-dispatch", "moved %s -> %s flags=%r window=%r: handler %r expected %r" % (src, dst, flags, win, log, exp))
                        orc.fail_cases.append({"paths": [list(ps), list(pd)], "flags": list(flags), "win": list(win)})
                    del log[:]
                    h.dispatch(ev.DirMovedEvent(src, dst))
                    n += 1
                    if log:
                        res.fail("directory-event-dispatched", "DirMovedEvent -> %r" % (log,))
                        orc.fail_cases.append({"paths": [list(ps), list(pd)], "flags": list(flags), "win": list(win)})
            if len(res.failures) > 40:
                return n, nt, unspec
    return n, nt, unspec


# ------------------------------------------------------------------ Hypothesis tier (wider grammar)
NAME = st.text(alphabet=st.characters(blacklist_categories=("Cs", "Cc"), blacklist_characters="/\x00"), min_size=1, max_size=10)


@st.composite
def _cases(draw):
    def one():
        prefix = draw(st.one_of(st.sampled_from(["rf", "md", "x", "tmp.rf", "tmp", "a@b", "rf@1", "tmp.", ".tmp", "t.mp."]), NAME))
        # file times stay inside the window of the (10 s) subdirectory they are placed in, as the format guarantees
        secs = draw(st.one_of(st.just(str(T)), st.integers(T, T + 9).map(str), st.just("0%d" % T), st.just(""), st.just("12a")))
        frac = draw(st.sampled_from([".000", ".000", "", ".5", ".00", ".0000", ".999"]))
        ext = draw(st.sampled_from([".h5", ".h5", ".h5", ".hdf5", ".h5.tmp", ""]))
        fn = "%s@%s%s%s" % (prefix, secs, frac, ext)
        sub = draw(st.sampled_from([SUB_OK, SUB_OK, SUB_OK, None, "2023-11-14T22-13-2", "x2023-11-14T22-13-20", "2023-11-14t22-13-20x"]))
        return ["ch" + kind_of(fn), sub, fn]  # always inside a channel of the file's own kind

    return {"paths": [one() for _ in range(draw(st.integers(2, 3)))],
            "flags": list(draw(st.sampled_from(FLAGS))), "win": list(draw(st.sampled_from(WINDOWS)))}


def strategy(tier):
    return _cases()


def run_live(case):
    """The filter behind the REAL observer (watchdog_drf.DirWatcher): finalized files that a listing shows must reach the
    handler as creations - whether they were published while the watch was up (tmp. name, then rename) or were already
    inside a watched directory that appeared (or came back) as a whole.  See vlib/live.py for how verdicts are taken."""
    import shutil
    import time
    from digital_rf import watchdog_drf
    from vlib import live

    res = Result()
    res.nontrivial = True
    res.cls("live:" + case["live"])
    drf = rfharness.drf()
    with rfharness.scratch("c15l") as base:
        root = os.path.join(base, "data", "root")
        os.makedirs(os.path.join(base, "data"))
        os.makedirs(os.path.join(base, "area"))
        blob = os.path.join(base, "blob")
        with open(blob, "wb") as f:
            f.write(b"\0" * 700)

        def build(top, nfiles):
            for ch, prop in (("chrf", "drf_properties.h5"), ("chdmd", "dmd_properties.h5")):
                os.makedirs(os.path.join(top, ch, SUB_OK), exist_ok=True)
                shutil.copyfile(blob, os.path.join(top, ch, prop))
            for i in range(nfiles):
                live.publish(blob, os.path.join(top, "chrf", SUB_OK, "rf@%d.000.h5" % (T + i)))
                shutil.copyfile(blob, os.path.join(top, "chdmd", SUB_OK, "md@%d.h5" % (T + 2 * i)))
            shutil.copyfile(blob, os.path.join(top, "chrf", SUB_OK, "tmp.rf@%d.000.h5" % (T + 9)))

        log = []
        h = make_handler((True, True, True, True), (None, None, False), log)
        if case["live"] != "late-root":
            build(root, 3)
        watcher = watchdog_drf.DirWatcher(root, force_polling=bool(case.get("polling")))
        watcher.schedule(h, root, recursive=True)
        import contextlib
        import io
        with contextlib.redirect_stdout(io.StringIO()):
            watcher.start()
        try:
            if case["live"] == "late-root":
                build(os.path.join(base, "area", "incoming"), 3)
                time.sleep(0.3)
                os.rename(os.path.join(base, "area", "incoming"), root)
            elif case["live"] == "root-replaced":
                time.sleep(0.3)
                shutil.rmtree(root)
                time.sleep(0.5)
                build(os.path.join(base, "area", "incoming"), 3)
                os.rename(os.path.join(base, "area", "incoming"), root)
            time.sleep(0.3)
            for i in (3, 4):
                live.publish(blob, os.path.join(root, "chrf", SUB_OK, "rf@%d.000.h5" % (T + i)))
            # what a listing shows now must have been delivered as creations (files that were there before the watcher
            # started - scenario existing-then-live - are the business of whoever starts it, e.g. mirror.start())
            listed = set(drf.lsdrf(root))
            if case["live"] == "existing-then-live":
                listed = {p for p in listed if os.path.basename(p) in ("rf@%d.000.h5" % (T + 3), "rf@%d.000.h5" % (T + 4))}

            def created():
                return {e[1] for e in list(log) if e[0] == "created"} | {e[2] for e in list(log) if e[0] == "moved"}

            if not live.wait_for(lambda: listed <= created(), 15):
                sent = os.path.join(root, "chrf", SUB_OK, "rf@%d.000.h5" % (T + 7))
                live.publish(blob, sent)
                if live.wait_for(lambda: sent in created(), 15):
                    time.sleep(1.0)
                    if not listed <= created():
                        res.fail("live-creation-not-delivered:" + case["live"], "%d of %d listed files never reached the handler as a creation although a file published later did: %s" % (
                            len(listed - created()), len(listed), sorted(os.path.relpath(p, root) for p in listed - created())[:3]))
                else:
                    res.cls("live-inconclusive")
            bad = [e for e in list(log) if os.path.basename(e[1]).startswith("tmp.") or (e[2] and os.path.basename(e[2]).startswith("tmp."))]
            if bad:
                res.fail("live-tmp-event-delivered:" + case["live"], "%r" % (bad[:2],))
        finally:
            try:
                watcher.stop()
                watcher.join(5)
            except Exception:
                pass
        res.evaluations = len(log)
    return res


def run_case(case):
    if case.get("live"):
        return run_live(case)
    res = Result()
    paths = [tuple(p) for p in case["paths"]]
    with rfharness.scratch("c15") as base:
        orc = Oracle(base)
        try:
            n, nt, un = judge_tuple(orc, paths, res, None, [tuple(case["flags"])], [tuple(case["win"])])
        except (OSError, ValueError) as e:
            # names the file system refuses are outside the domain
            res.cls("unbuildable-path")
            return res
    res.evaluations = n
    res.nontrivial = True
    # de-duplicate signatures
    seen, uniq = set(), []
    for s, d in res.failures:
        if s not in seen:
            seen.add(s)
            uniq.append((s, d))
    res.failures = uniq
    return res


def directed_cases(tier):
    # the writer's finalizing rename, and a rename of a tracked file to a non-matching name
    return [{"paths": [["chrf", SUB_OK, "tmp.rf@%d.000.h5" % T], ["chrf", SUB_OK, "rf@%d.000.h5" % T]], "flags": [True, True, True, True], "win": [None, None]},
            {"paths": [["chrf", SUB_OK, "rf@%d.000.h5" % T], ["chrf", SUB_OK, "rf@%d.000.h5.bak" % T]], "flags": [True, False, False, False], "win": [0, 0]},
            {"live": "existing-then-live"}, {"live": "late-root"}, {"live": "root-replaced"}]


def extra(tier, seed, camp):
    """The exhaustive part (same for quick and thorough)."""
    res = Result()
    with rfharness.scratch("c15e") as base:
        orc = Oracle(base)
        paths = grammar_paths()
        n, nt, unspec = judge_tuple(orc, paths, res, None)
    camp.evaluations += n
    camp.cases += n
    camp.nontrivial_extra += nt
    camp.extra_cov["exhaustive"] = True
    camp.extra_cov["enum_dispatches"] = n
    camp.extra_cov["enum_paths"] = len(paths)
    camp.extra_cov["enum_unspecified_moves"] = unspec
    camp.extra_cov["enum_scope"] = "%d paths x (3 file + 3 dir events, and all src x dest moves) x %d flag sets x %d windows" % (len(paths), len(FLAGS), len(WINDOWS))
    seen = set()
    for (sig, d), fc in zip(res.failures, orc.fail_cases):
        if sig in seen:
            continue
        seen.add(sig)
        r = Result()
        r.fail(sig, d)
        camp.record(fc, r)


def shrink_candidates(case):
    if case.get("live"):
        return
    ps = case["paths"]
    if len(ps) > 2:
        for i in range(len(ps)):
            yield dict(case, paths=ps[:i] + ps[i + 1:])
