"""C16 - ringbuffer deletes only what it must, oldest first, with exact accounting (DESIGN.md section 4, C16)."""
from __future__ import annotations

import itertools
import multiprocessing
import os

from hypothesis import strategies as st

from vlib import rfharness
from vlib.campaign import Result

PID = "C16"
LEVEL = "exploration"
ENGINE = "enum+pbt"
TECHNIQUE = "exhaustive short event sequences plus Hypothesis-generated long histories on real files against a model of the tracked set; os.remove/os.rmdir wrapped to log deletions"
RULE = (
    "Real files (1-4 KiB) in a scratch tree of 2-3 channels x {rf, dmd} groups x 6 time slots plus properties, tmp. and "
    "outside files. (i) all sequences up to length 4 (thorough 5) over a 10-symbol alphabet on a 2-group x 3-slot "
    "universe for each of the 7 limit combinations; (ii) Hypothesis histories of up to 60 steps: create (+/- event), "
    "duplicate created, modified (grown / shrunk / unchanged), deleted event (file gone or not), delete without "
    "event, tmp->final move, final->non-matching move, final->final move (both names match), move of a file to the same name "
    "under another subdirectory with late / reordered / missing events (created-then-deleted, rescan-then-moved, ...), add/modify/remove batches (sorted or not), events for "
    "properties / tmp. paths, re-scans (_add_existing_files, _verify_ringbuffer_files) - no observer "
    "thread. After every step: every deleted file was tracked, is a data/metadata file in the tree and was the "
    "oldest of its group; records / queues / active_size equal the model (sizes as last reported); every deletion "
    "happened while a configured limit was exceeded; after a newly reported file every limit holds. Non-trivial: a "
    "duplicate, out-of-order or missing event or a re-scan AND >= 1 expiry."
    ' Further dimensions: watched directory named relative to the current directory, time windows (aware / naive), construction through the `drf ringbuffer` command line, verbose reports, negative size (all space except N) with a fixed file-system report, recordings at the epoch (time key 0); three LIVE scenarios with DigitalRFRingbuffer.start() and the real observer threads (sentinel protocol of vlib/live.py).'
)
RULE += ' Since rounds 7-8: files with a second hard link outside the tree, future-dated / old files at a live start, renames at the exact limit.'
ASSUMPTIONS = ["events are dispatched synchronously through handler.dispatch; no observer thread runs",
               "the size limit is at least the sum over groups of the largest file size (the property's quantifier)"]
FLOORS = {"nontrivial": 0.3}
T0 = 1700000000
SUB = "2023-11-14T22-13-20"
SUB2 = "2023-11-14T22-13-10"  # file index i + len(files) names the SAME file name under this other subdirectory


def budget(tier):
    return {"examples": 70 if tier == "quick" else 300, "shards": 1 if tier == "quick" else 16}


# ------------------------------------------------------------------ universe
def universe(nch, kinds, slots, T0=T0, SUB=SUB):
    """list of dict(path-rel, group-rel, key)."""
    files = []
    for c in range(nch):
        for kind in kinds:
            for s in range(slots):
                if kind == "rf":
                    rel = "ch%d/%s/rf@%d.%03d.h5" % (c, SUB, T0 + s // 2, 500 * (s % 2))
                    key = (T0 + s // 2) * 1000 + 500 * (s % 2)
                    grp = ("ch%d" % c, "rf")
                else:
                    rel = "ch%d/metadata/%s/metadata@%d.h5" % (c, SUB, T0 + s)
                    key = (T0 + s) * 1000
                    grp = ("ch%d/metadata" % c, "metadata")
                files.append({"rel": rel, "group": grp, "key": key})
    return files


class Sim:
    def __init__(self, base, case):
        from digital_rf import ringbuffer

        self.rb_mod = ringbuffer
        self.base = base
        self.root = os.path.join(base, "data")
        self.case = case
        # (t0 = 0: recordings that begin at the epoch itself - the oldest file of every group has time key 0)
        self.T0 = case.get("t0", T0)
        self.SUB, self.SUB2 = (SUB, SUB2) if self.T0 else ("1970-01-01T00-00-00", "1970-01-01T00-00-10")
        self.files = universe(case["nch"], case["kinds"], case["slots"], self.T0, self.SUB)
        os.makedirs(self.root, exist_ok=True)
        for c in range(case["nch"]):
            d = os.path.join(self.root, "ch%d" % c)
            os.makedirs(os.path.join(d, self.SUB), exist_ok=True)
            self._touch(os.path.join(d, "drf_properties.h5"), 300)
            if "dmd" in case["kinds"]:
                os.makedirs(os.path.join(d, "metadata", self.SUB), exist_ok=True)
                self._touch(os.path.join(d, "metadata", "dmd_properties.h5"), 300)
        self.outside = os.path.join(base, "outside", "ch0", self.SUB, "rf@%d.000.h5" % self.T0)
        os.makedirs(os.path.dirname(self.outside))
        self._touch(self.outside, 100)
        self.noise = {
            "props": os.path.join(self.root, "ch0", "drf_properties.h5"),
            "tmp": os.path.join(self.root, "ch0", self.SUB, "tmp.rf@%d.000.h5" % (self.T0 + 9)),
        }
        self._touch(self.noise["tmp"], 200)
        lim = case["limits"]
        # the watched directory may be named relative to the current directory (cwd = base); the observer reports paths
        # below the directory the ringbuffer schedules it on, self.rb.path - event paths are built the same way
        rel = case.get("relroot")
        win = case.get("win") or (None, None, False)
        self.win = win

        def dt_(ms):
            import datetime
            if ms is None:
                return None
            t = datetime.datetime(1970, 1, 1, tzinfo=datetime.timezone.utc) + datetime.timedelta(milliseconds=ms)
            return t.replace(tzinfo=None) if win[2] else t  # naive datetimes are documented to mean UTC

        kw = {}
        if win[0] is not None:
            kw["starttime"] = dt_(win[0])
        if win[1] is not None:
            kw["endtime"] = dt_(win[1])
        size_arg = lim.get("size")
        fake_statvfs = None
        if case.get("negsize") and size_arg is not None and not case.get("cli"):
            # the size limit given the other way round: "all available space except N bytes".  Available space is what the
            # file system reports (here: a fixed 10^6 bytes) plus the files the ringbuffer would manage that exist already;
            # N is chosen so that the resulting limit is the same number of bytes as in the plain form
            X = 1000000
            present = {}
            for fi, sz in case["negsize"]:
                self._touch(os.path.join(self.root, self.files[fi]["rel"]), sz)
                present[fi] = sz  # (a file listed twice has been re-written: its last size counts)
            inwin = sum(sz for fi, sz in present.items() if self.in_window_key(self.files[fi]["key"], win))
            size_arg = -(X + inwin - lim["size"])

            class _SV(object):
                f_frsize = 1
                f_bavail = X
            fake_statvfs = lambda p_: _SV()
        if case.get("cli"):
            # the same ringbuffer configured through the command line (drf ringbuffer PATH -z SIZE -c COUNT -l SECONDS
            # -s START -e END): the object the command builds is taken over just before it would start watching
            from digital_rf import drf_command
            import contextlib
            import io
            argv = ["ringbuffer", rel if rel else self.root] + (["-v"] if case.get("verbose") else [])
            if lim.get("size") is not None:
                L_ = lim["size"]
                argv += ["-z", {0: "%d" % L_, 1: "%dB" % L_, 2: ("%dKiB" % (L_ // 1024)) if L_ % 1024 == 0 else "%d" % L_}[case["cli"] % 3]]
            if lim.get("count") is not None:
                argv += ["-c", "%d" % lim["count"]]
            if lim.get("duration") is not None:
                argv += ["-l", "%g" % (lim["duration"] / 1000.0)]
            for flag, ms in (("-s", win[0]), ("-e", win[1])):
                if ms is not None:
                    argv += [flag, "%d.%03d" % (ms // 1000, ms % 1000)]
            got = []
            real_run = ringbuffer.DigitalRFRingbuffer.run
            ringbuffer.DigitalRFRingbuffer.run = lambda self_: got.append(self_)
            try:
                with contextlib.redirect_stdout(io.StringIO()):
                    drf_command.main(argv)
            finally:
                ringbuffer.DigitalRFRingbuffer.run = real_run
            self.rb = got[0]
        else:
            real_statvfs = os.statvfs
            if fake_statvfs is not None:
                os.statvfs = fake_statvfs
            try:
                self.rb = ringbuffer.DigitalRFRingbuffer(rel if rel else self.root, size=size_arg, count=lim.get("count"),
                                                         duration=lim.get("duration"), verbose=bool(case.get("verbose")), status_interval=None, **kw)
            finally:
                os.statvfs = real_statvfs
        self.evroot = self.rb.path
        self.h = self.rb.event_handler
        self.model = {}  # abs path -> [group(abs), key, size]
        self.deleted = []
        self.expiries = 0

    def _touch(self, p, size):
        # the ringbuffer removes subdirectories it has emptied; a writer would re-create them
        os.makedirs(os.path.dirname(p), exist_ok=True)
        with open(p, "wb") as f:
            f.write(b"\0" * size)
        if self.case.get("linked") and os.stat(p).st_nlink == 1:
            # every file of the tree also has a second name outside it (an archive made with `drf ln` / `cp -l`): the
            # link count of a file is not the ringbuffer's business - its size is what it occupies in the budget
            snap = os.path.join(self.base, "snapshot")
            os.makedirs(snap, exist_ok=True)
            self._nlinks = getattr(self, "_nlinks", 0) + 1
            os.link(p, os.path.join(snap, "%06d" % self._nlinks))

    def path(self, i):
        nf = len(self.files)
        if i >= nf:
            return os.path.join(self.evroot, self.files[i - nf]["rel"].replace("/" + self.SUB + "/", "/" + self.SUB2 + "/"))
        return os.path.join(self.evroot, self.files[i]["rel"])

    def group(self, i):
        g = self.files[i % len(self.files)]["group"]
        return (os.path.join(self.evroot, g[0]), g[1])

    def in_window(self, i):
        return self.in_window_key(self.files[i % len(self.files)]["key"], self.win)

    @staticmethod
    def in_window_key(key, win):
        return (win[0] is None or key >= win[0]) and (win[1] is None or key <= win[1])

    # ---- model updates (sizes are captured with stat() *before* the handler is called, because the
    #      handler may expire the very file it was just told about)
    def stat(self, idxs):
        out = {}
        for i in idxs:
            p = self.path(i)
            if os.path.exists(p):
                out[i] = os.path.getsize(p)
        return out

    def m_add(self, i, sizes):
        if i in sizes and self.in_window(i):  # files stamped outside the configured time window are not the ringbuffer's
            self.model[self.path(i)] = [self.group(i), self.files[i % len(self.files)]["key"], sizes[i]]
            return True
        return False

    m_modify = m_add


def limits_state(model, limits):
    """Which limits are exceeded on the model: returns (size_exceeded, {group: (count_exceeded, duration_exceeded)})."""
    total = sum(v[2] for v in model.values())
    size_ex = "size" in limits and limits["size"] is not None and total > limits["size"]
    per = {}
    groups = {}
    for p, (g, k, s) in model.items():
        groups.setdefault(g, []).append(k)
    for g, ks in groups.items():
        c_ex = limits.get("count") is not None and len(ks) > limits["count"]
        d_ex = limits.get("duration") is not None and (max(ks) - min(ks)) > limits["duration"]
        per[g] = (c_ex, d_ex)
    return size_ex, per


def run_sim(case, fail):
    """Run a case.  fail(sig, detail).  Returns dict(expiries, interesting)."""
    from watchdog import events as ev

    info = {"expiries": 0, "irregular": False, "steps": 0}
    old_cwd = os.getcwd()
    with rfharness.scratch("c16") as base:
        os.makedirs(os.path.join(base, "data"), exist_ok=True)
        if case.get("relroot"):
            os.chdir(base)
        try:
            sim = Sim(base, case)
        except Exception:
            os.chdir(old_cwd)
            raise
        real_remove, real_rmdir = os.remove, os.rmdir
        dels = []

        def remove(p, *a, **k):
            # what the handler tracks at this moment (the expired record has already been popped): inside a batch
            # the tracked set grows file by file, so "older file kept" has to be judged against this set
            tracked_now = set(sim.h.records) | {os.path.abspath(p)}
            try:
                r = real_remove(p, *a, **k)
            except OSError:
                # the file was already gone: nothing is deleted, but the handler has dropped its record
                dels.append(("x", os.path.abspath(p), tracked_now))
                raise
            dels.append(("f", os.path.abspath(p), tracked_now))
            return r

        def rmdir(p, *a, **k):
            try:
                r = real_rmdir(p, *a, **k)
            except OSError:
                raise
            dels.append(("d", os.path.abspath(p), None))
            return r

        os.remove, os.rmdir = remove, rmdir
        import contextlib
        import io
        quiet = contextlib.redirect_stdout(io.StringIO())
        quiet.__enter__()
        try:
            limits = case["limits"]
            for si, op in enumerate(case["ops"]):
                info["steps"] += 1
                del dels[:]
                new_report = False
                pre_model = {k: list(v) for k, v in sim.model.items()}
                o = op["o"]
                try:
                    if o == "create":
                        p = sim.path(op["f"])
                        tracked_before = p in sim.model
                        real = os.path.exists(p)
                        if not real:
                            sim._touch(p, op["size"])
                        if op.get("event", True):
                            if tracked_before or real:
                                info["irregular"] = True
                            sizes = sim.stat([op["f"]])
                            sim.h.dispatch(ev.FileCreatedEvent(p))
                            new_report = not tracked_before
                            sim.m_add(op["f"], sizes)
                        else:
                            info["irregular"] = True
                    elif o == "created":
                        p = sim.path(op["f"])
                        info["irregular"] = True
                        tracked_before = p in sim.model
                        sizes = sim.stat([op["f"]])
                        sim.h.dispatch(ev.FileCreatedEvent(p))
                        if sim.m_add(op["f"], sizes):
                            new_report = not tracked_before
                    elif o == "modify":
                        p = sim.path(op["f"])
                        if os.path.exists(p) and op.get("size") is not None:
                            sim._touch(p, op["size"])
                        if op.get("event", True):
                            tracked_before = p in sim.model
                            if not tracked_before:
                                info["irregular"] = True
                            sizes = sim.stat([op["f"]])
                            sim.h.dispatch(ev.FileModifiedEvent(p))
                            if sim.m_modify(op["f"], sizes):
                                new_report = not tracked_before
                        else:
                            info["irregular"] = True
                    elif o == "deleted":
                        p = sim.path(op["f"])
                        if op.get("really", True) and os.path.exists(p):
                            real_remove(p)
                        else:
                            info["irregular"] = True
                        sim.h.dispatch(ev.FileDeletedEvent(p))
                        sim.model.pop(p, None)
                    elif o == "unlink":
                        p = sim.path(op["f"])
                        if os.path.exists(p):
                            real_remove(p)
                            info["irregular"] = True
                    elif o == "move_tmp":
                        p = sim.path(op["f"])
                        tmp = os.path.join(os.path.dirname(p), "tmp." + os.path.basename(p))
                        tracked_before = p in sim.model
                        sim._touch(tmp, op["size"])
                        sim.h.dispatch(ev.FileCreatedEvent(tmp))
                        sim.h.dispatch(ev.FileModifiedEvent(tmp))
                        os.rename(tmp, p)
                        sizes = sim.stat([op["f"]])
                        sim.h.dispatch(ev.FileMovedEvent(tmp, p))
                        new_report = not tracked_before
                        sim.m_add(op["f"], sizes)
                    elif o == "move_final":
                        # rename of a tracked file to another valid data-file name of the same group
                        p = sim.path(op["f"])
                        q = sim.path(op["t"])
                        # (a rename between two matching names of which only one lies in the time window is not specified:
                        # the filter looks at the destination's time only - see C15 - so such renames are not generated)
                        if os.path.exists(p) and not os.path.exists(q) and sim.group(op["f"]) == sim.group(op["t"]) \
                                and sim.in_window(op["f"]) == sim.in_window(op["t"]):
                            tracked_before = q in sim.model
                            os.rename(p, q)
                            sizes = sim.stat([op["t"]])
                            sim.h.dispatch(ev.FileMovedEvent(p, q))
                            sim.model.pop(p, None)
                            new_report = not tracked_before
                            sim.m_add(op["t"], sizes)
                    elif o == "rename_sub":
                        # the file is moved (on disk only) to the same name under another subdirectory, or back
                        nf = len(sim.files)
                        a, b = sim.path(op["f"] % nf), sim.path(op["f"] % nf + nf)
                        src, dst = (a, b) if os.path.exists(a) else (b, a)
                        if os.path.exists(src) and not os.path.exists(dst):
                            os.makedirs(os.path.dirname(dst), exist_ok=True)
                            os.rename(src, dst)
                            info["irregular"] = True
                    elif o == "moved_late":
                        # a moved event that arrives after the fact (the destination may already be tracked)
                        p, q = sim.path(op["f"]), sim.path(op["t"])
                        if os.path.exists(q) and not os.path.exists(p) and sim.in_window(op["f"]) == sim.in_window(op["t"]):
                            info["irregular"] = True
                            tracked_before = q in sim.model
                            sizes = sim.stat([op["t"]])
                            sim.h.dispatch(ev.FileMovedEvent(p, q))
                            sim.model.pop(p, None)
                            new_report = not tracked_before
                            sim.m_add(op["t"], sizes)
                    elif o == "move_away":
                        p = sim.path(op["f"])
                        dst = p + ".bak"
                        if os.path.exists(p):
                            os.rename(p, dst)
                        sim.h.dispatch(ev.FileMovedEvent(p, dst))
                        sim.model.pop(p, None)
                    elif o == "batch_add":
                        info["irregular"] = True
                        # add_files / modify_files are handed lists that the ringbuffer obtained from a listing with its
                        # own time window (they do not filter by time themselves): only in-window files are passed
                        fs_ = [i for i in op["fs"] if sim.in_window(i)]
                        paths = [sim.path(i) for i in fs_]
                        before = set(sim.model)
                        sizes = sim.stat(fs_)
                        sim.h.add_files(paths, sort=op.get("sort", True))
                        for i in fs_:
                            sim.m_add(i, sizes)
                        new_report = bool(set(sim.model) - before)
                    elif o == "batch_modify":
                        info["irregular"] = True
                        before = set(sim.model)
                        fs_ = [i for i in op["fs"] if sim.in_window(i)]
                        sizes = sim.stat(fs_)
                        sim.h.modify_files([sim.path(i) for i in fs_], sort=op.get("sort", True))
                        for i in fs_:
                            sim.m_modify(i, sizes)
                        new_report = bool(set(sim.model) - before)
                    elif o == "batch_remove":
                        info["irregular"] = True
                        sim.h.remove_files([sim.path(i) for i in op["fs"]])
                        for i in op["fs"]:
                            sim.model.pop(sim.path(i), None)
                    elif o == "noise":
                        p = sim.noise[op["kind"]]
                        for cls in (ev.FileCreatedEvent, ev.FileModifiedEvent):
                            sim.h.dispatch(cls(p))
                        sim.h.add_files([p])  # no time stamp / tmp prefix: must be ignored
                    elif o == "rescan":
                        info["irregular"] = True
                        before = set(sim.model)
                        sizes = sim.stat(range(2 * len(sim.files)))
                        if op["kind"] == "existing":
                            sim.rb._add_existing_files()
                        else:
                            sim.rb._verify_ringbuffer_files(set(sim.h.records.keys()))
                            for p in list(sim.model):
                                if not os.path.exists(p) and p not in [x[1] for x in dels]:
                                    sim.model.pop(p)
                        for i in range(2 * len(sim.files)):
                            sim.m_add(i, sizes)
                        new_report = bool(set(sim.model) - before)
                except Exception as e:
                    fail("exception:%s:%s" % (o, type(e).__name__), "step %d %r: %s" % (si, op, e))
                    return info
                # ---- judge the deletions of this step, replayed in order against the model
                work = {k: list(v) for k, v in sim.model.items()}
                # files expired during this step but (re-)added to the model by m_add above do not exist any more
                for kind, p, tracked_now in dels:
                    if kind == "d":
                        continue
                    if kind == "x":
                        work.pop(p, None)
                        sim.model.pop(p, None)
                        continue
                    info["expiries"] += 1
                    if os.path.basename(p).startswith("tmp.") or os.path.basename(p).endswith("_properties.h5") \
                            or not p.startswith(sim.root + os.sep):
                        fail("deleted-protected-file", "step %d %r deleted %s" % (si, op, os.path.relpath(p, base)))
                        continue
                    st_ = work.get(p) or pre_model.get(p)
                    if p not in work:
                        if p in pre_model:
                            work[p] = list(pre_model[p])
                        else:
                            fail("deleted-untracked-file", "step %d %r deleted %s which was not tracked" % (si, op, os.path.relpath(p, base)))
                            continue
                    g, k, s = work[p]
                    older = [q for q, v in work.items() if v[0] == g and v[1] < k and q in tracked_now]
                    if older:
                        fail("not-oldest-first", "step %d %r deleted %s while older %s is kept" % (
                            si, op, os.path.relpath(p, base), os.path.relpath(older[0], base)))
                    size_ex, per = limits_state(work, limits)
                    c_ex, d_ex = per.get(g, (False, False))
                    if not (size_ex or c_ex or d_ex):
                        tot = sum(v[2] for v in work.values())
                        fail("unnecessary-deletion", "step %d %r deleted %s but no limit was exceeded (total %d, limits %r, group count %d)" % (
                            si, op, os.path.relpath(p, base), tot, limits, len([1 for v in work.values() if v[0] == g])))
                    del work[p]
                    sim.model.pop(p, None)
                for kind, p, _t in dels:
                    if kind == "d" and (not p.startswith(sim.root + os.sep)):
                        fail("deleted-protected-file", "rmdir %s" % p)
                # ---- bookkeeping == model
                recs = sim.h.records
                if set(recs) != set(sim.model):
                    fail("tracked-set", "step %d %r: handler-only %s model-only %s" % (
                        si, op, sorted(os.path.relpath(p, base) for p in set(recs) - set(sim.model))[:3],
                        sorted(os.path.relpath(p, base) for p in set(sim.model) - set(recs))[:3]))
                else:
                    groups = {}
                    for p, (g, k, s) in sim.model.items():
                        groups.setdefault(g, []).append((k, p))
                    for g, lst in groups.items():
                        q = list(sim.h.queues.get(g, []))
                        # time order; files with EQUAL time stamps (same name in two subdirectories) may come in any order
                        if [x[0] for x in q] != [x[0] for x in sorted(lst)] or sorted(q) != sorted(lst):
                            fail("queue-order", "step %d %r group %s queue %r model %r" % (si, op, g[1], [x[0] for x in q], [x[0] for x in sorted(lst)]))
                    for g, q in sim.h.queues.items():
                        if len(q) and g not in groups:
                            fail("queue-order", "step %d %r: queue for %r holds %d untracked entries" % (si, op, g, len(q)))
                    if limits.get("size") is not None:
                        tot = sum(v[2] for v in sim.model.values())
                        if sim.h.active_size != tot:
                            fail("active-size", "step %d %r: active_size %d, sum of tracked sizes %d" % (si, op, sim.h.active_size, tot))
                        for p, (g, k, s) in sim.model.items():
                            if recs[p].size != s:
                                fail("record-size", "step %d %r: %s recorded %d last reported %d" % (si, op, os.path.relpath(p, base), recs[p].size, s))
                                break
                # ---- limits hold after a newly reported file
                if new_report:
                    size_ex, per = limits_state(sim.model, limits)
                    if size_ex:
                        fail("limit-not-restored:size", "step %d %r: total %d > %d" % (si, op, sum(v[2] for v in sim.model.values()), limits["size"]))
                    for g, (c_ex, d_ex) in per.items():
                        if c_ex:
                            fail("limit-not-restored:count", "step %d %r group %s" % (si, op, g[1]))
                        if d_ex:
                            fail("limit-not-restored:duration", "step %d %r group %s" % (si, op, g[1]))
        finally:
            quiet.__exit__(None, None, None)
            os.remove, os.rmdir = real_remove, real_rmdir
            os.chdir(old_cwd)
            try:
                sim.rb.observer = None
            except Exception:
                pass
    return info


# ------------------------------------------------------------------ Hypothesis tier
LIMIT_SETS = [("size",), ("count",), ("duration",), ("size", "count"), ("size", "duration"), ("count", "duration"), ("size", "count", "duration")]


@st.composite
def _cases(draw, tier):
    nch = draw(st.integers(1, 2))
    kinds = draw(st.sampled_from([["rf"], ["rf", "dmd"], ["rf", "dmd"]]))
    slots = 6
    nfiles = nch * len(kinds) * slots
    ngroups = nch * len(kinds)
    which = draw(st.sampled_from(LIMIT_SETS))
    limits = {}
    if "size" in which:
        limits["size"] = ngroups * 4096 + draw(st.integers(0, 3)) * 1500
    if "count" in which:
        limits["count"] = draw(st.integers(1, 4))
    if "duration" in which:
        limits["duration"] = draw(st.sampled_from([0, 500, 1000, 1500, 2500]))
    nsteps = draw(st.integers(8, 30 if tier == "quick" else 60))
    ops = []
    f = st.integers(0, nfiles - 1)
    sz = st.sampled_from([1024, 1500, 2048, 3000, 4096])
    for _ in range(nsteps):
        k = draw(st.sampled_from(["create"] * 6 + ["created", "modify", "modify", "deleted", "unlink", "move_tmp", "move_away", "move_final", "move_final",
                                  "batch_add", "batch_modify", "batch_remove", "noise", "rescan", "move_sub", "move_sub"]))
        if k == "move_sub":
            # a tracked file changes subdirectory; the events describing it arrive late, reordered, duplicated or not at all
            a = draw(f)
            if draw(st.integers(0, 2)):
                a = (a // slots) * slots + draw(st.integers(0, 1))  # one of the oldest slots of its group
                if draw(st.booleans()):
                    ops.append({"o": "create", "f": a, "size": draw(sz), "event": True})
            how = draw(st.integers(0, 5))
            ops.append({"o": "rename_sub", "f": a})
            src, dst = (a, a + nfiles) if draw(st.integers(0, 3)) else (a + nfiles, a)
            if how == 0:
                ops.append({"o": "moved_late", "f": src, "t": dst})
            elif how == 1:
                ops.extend([{"o": "created", "f": dst}, {"o": "deleted", "f": src, "really": False}])
            elif how == 2:
                ops.extend([{"o": "rescan", "kind": "existing"}, {"o": "moved_late", "f": src, "t": dst}])
            elif how == 3:
                ops.extend([{"o": "created", "f": dst}, {"o": "moved_late", "f": src, "t": dst}])
            elif how == 4:
                ops.extend([{"o": "batch_add", "fs": [dst], "sort": True}, {"o": "deleted", "f": src, "really": False}])
            else:
                ops.append({"o": "created", "f": dst})
            continue
        if k == "create":
            ops.append({"o": k, "f": draw(f), "size": draw(sz), "event": draw(st.sampled_from([True, True, True, False]))})
        elif k == "created":
            ops.append({"o": k, "f": draw(f)})
        elif k == "modify":
            ops.append({"o": k, "f": draw(f), "size": draw(st.one_of(st.none(), sz)), "event": draw(st.sampled_from([True, True, False]))})
        elif k == "deleted":
            ops.append({"o": k, "f": draw(f), "really": draw(st.booleans())})
        elif k in ("unlink", "move_away"):
            ops.append({"o": k, "f": draw(f)})
        elif k == "move_final":
            a = draw(f)
            ops.append({"o": k, "f": a, "t": (a // slots) * slots + draw(st.integers(0, slots - 1))})
        elif k == "move_tmp":
            ops.append({"o": k, "f": draw(f), "size": draw(sz)})
        elif k.startswith("batch"):
            ops.append({"o": k, "fs": draw(st.lists(f, min_size=1, max_size=5)), "sort": draw(st.booleans())})
        elif k == "noise":
            ops.append({"o": k, "kind": draw(st.sampled_from(["props", "tmp"]))})
        else:
            ops.append({"o": k, "kind": draw(st.sampled_from(["existing", "verify"]))})
    case = {"nch": nch, "kinds": kinds, "slots": slots, "limits": limits, "ops": ops}
    # how the watched directory is named, and an optional time window (aware or naive datetimes; a start time only without
    # metadata groups, whose listing adds the forward-fill file that the event filter does not know)
    case["relroot"] = draw(st.sampled_from([None, None, None, "data", "./data/"]))
    case["linked"] = draw(st.integers(0, 3)) == 0
    t0 = draw(st.sampled_from([T0, T0, T0, 0]))
    if t0 != T0:
        case["t0"] = t0
    case["cli"] = draw(st.sampled_from([0, 0, 1, 2, 3]))  # 0: constructed through the API; else through the command line
    case["verbose"] = draw(st.booleans())  # progress reports on stdout: must not change what happens
    if "size" in limits and not case["cli"] and draw(st.integers(0, 2)) == 0:
        # (files that exist when the ringbuffer object is made; they are tracked only after a re-scan)
        case["negsize"] = [[draw(f), draw(sz)] for _ in range(draw(st.integers(0, 3)))]
        if not case["negsize"]:
            case["negsize"] = [[0, 1024]]
    if draw(st.integers(0, 3)) == 0:
        keys = sorted({(t0 + s_ // 2) * 1000 + 500 * (s_ % 2) for s_ in range(slots)} | {(t0 + s_) * 1000 for s_ in range(slots)})
        a = max(0, draw(st.sampled_from(keys)) + draw(st.sampled_from([-1, 0, 0, 1])))
        b = max(0, draw(st.sampled_from(keys)) + draw(st.sampled_from([-1, 0, 0, 1])))
        if b < a:
            a, b = b, a
        which_w = draw(st.integers(0, 2))
        start = a if (which_w in (0, 2) and "dmd" not in kinds) else None
        end = b if which_w in (1, 2) else None
        if start is not None or end is not None:
            case["win"] = [start, end, draw(st.booleans())]
            # with a window the listing selects subdirectories by THEIR time: the histories that park a file under another
            # subdirectory (whose period does not contain the file's time - not a layout the format produces) are left out
            def _plain(o):
                return o["o"] not in ("rename_sub", "moved_late") and all(i < nfiles for i in [o.get("f", 0), o.get("t", 0)] + list(o.get("fs", [])))
            case["ops"] = [o for o in ops if _plain(o)] or [{"o": "create", "f": 0, "size": 2048, "event": True}]
    return case


def strategy(tier):
    return _cases(tier)


def run_live(case):
    """The ringbuffer with its real observer threads (see vlib/live.py for how verdicts are taken): a count limit of 3 on a
    tree that exists at start / arrives complete after the start / is deleted and replaced; newer files are then published
    the way the writer does (tmp. name, rename)."""
    import contextlib
    import io
    import shutil
    import time
    from digital_rf import ringbuffer
    from vlib import live

    res = Result()
    res.nontrivial = True
    res.cls("live:" + case["live"])
    with rfharness.scratch("c16l") as base:
        root = os.path.join(base, "data", "rb")
        os.makedirs(os.path.join(base, "data"))
        os.makedirs(os.path.join(base, "area"))
        blob = os.path.join(base, "blob")
        with open(blob, "wb") as f:
            f.write(b"\0" * 1500)

        def rel(i, ch="ch0"):
            return os.path.join(ch, SUB, "rf@%d.000.h5" % (T0 + i))

        def build(top, upto):
            for ch in ("ch0", "ch1"):
                os.makedirs(os.path.join(top, ch, SUB), exist_ok=True)
                with open(os.path.join(top, ch, "drf_properties.h5"), "wb") as f:
                    f.write(b"p" * 300)
                for i in range(upto):
                    live.publish(blob, os.path.join(top, rel(i, ch)))

        def on_disk(ch):
            d = os.path.join(root, ch, SUB)
            return sorted(fn for fn in (os.listdir(d) if os.path.isdir(d) else []) if fn.startswith("rf@"))

        def newest(n_total, ch):
            return sorted("rf@%d.000.h5" % (T0 + i) for i in range(n_total))[-3:]

        if case["live"] != "late-root":
            build(root, 5)
            if case.get("mtimes"):
                # the files found at start carry modification times that say nothing about their place in the recording:
                # written by a host whose clock was a day ahead / restored from an archive with old times
                res.cls("live:existing-files-mtime-" + case["mtimes"])
                t_ = time.time() + (86400 if case["mtimes"] == "future" else -10 * 86400)
                for ch in ("ch0", "ch1"):
                    for i in (0, 1, 3):
                        os.utime(os.path.join(root, rel(i, ch)), (t_, t_))
        out = io.StringIO()
        with contextlib.redirect_stdout(out):
            rb = ringbuffer.DigitalRFRingbuffer(root, count=3, size=None, verbose=bool(case.get("verbose")), status_interval=3600)
            rb.start()
        try:
            with contextlib.redirect_stdout(out):
                if case["live"] == "late-root":
                    build(os.path.join(base, "area", "incoming"), 5)
                    time.sleep(0.3)
                    os.rename(os.path.join(base, "area", "incoming"), root)
                elif case["live"] == "root-replaced":
                    live.wait_for(lambda: on_disk("ch0") == newest(5, "ch0"), 10)
                    shutil.rmtree(root)
                    time.sleep(0.5)
                    build(os.path.join(base, "area", "incoming"), 5)
                    os.rename(os.path.join(base, "area", "incoming"), root)
                time.sleep(0.3)
                for i in (5, 6, 7):
                    for ch in ("ch0", "ch1"):
                        live.publish(blob, os.path.join(root, rel(i, ch)))
                    time.sleep(0.05)

                def settled(n_total):
                    return all(on_disk(ch) == newest(n_total, ch) for ch in ("ch0", "ch1"))

                if not live.wait_for(lambda: settled(8), 15):
                    # is the pipeline alive?  one more (newest) file per channel; "handled" = the handler tracks it
                    for ch in ("ch0", "ch1"):
                        live.publish(blob, os.path.join(root, rel(8, ch)))
                    handled = live.wait_for(lambda: all(os.path.join(root, rel(8, ch)) in rb.event_handler.records for ch in ("ch0", "ch1")), 15)
                    if handled:
                        time.sleep(1.0)
                        if not settled(9):
                            res.fail("live-limit-not-enforced:" + case["live"],
                                     "count=3: after the newest file had been handled the channel directories hold %r / %r (expected the newest three)" % (
                                         on_disk("ch0"), on_disk("ch1")))
                    else:
                        res.cls("live-inconclusive")
                for ch in ("ch0", "ch1"):
                    if not os.path.exists(os.path.join(root, ch, "drf_properties.h5")) and os.path.isdir(os.path.join(root, ch)):
                        res.fail("live-properties-deleted:" + case["live"], ch)
        finally:
            with contextlib.redirect_stdout(out):
                try:
                    rb.stop()
                    rb.observer.join(5)
                except Exception:
                    pass
        res.evaluations = 16
    return res


def run_case(case):
    if case.get("live"):
        return run_live(case)
    res = Result()
    seen = set()

    def fail(sig, detail):
        if sig not in seen:
            seen.add(sig)
            res.fail(sig, detail)

    info = run_sim(case, fail)
    res.evaluations = max(1, info["steps"])
    res.nontrivial = info["irregular"] and info["expiries"] > 0
    res.cls("limits:" + "+".join(sorted(k for k in case["limits"])))
    if info["expiries"]:
        res.cls("expiry")
    return res


def directed_cases(tier):
    # design-phase probe (F7): duplicate creation events double-count the size
    ops = [{"o": "create", "f": 0, "size": 3000, "event": True}, {"o": "created", "f": 0}, {"o": "created", "f": 0},
           {"o": "create", "f": 1, "size": 3000, "event": True}, {"o": "rescan", "kind": "verify"},
           {"o": "create", "f": 2, "size": 2000, "event": True}]
    out = [{"nch": 1, "kinds": ["rf"], "slots": 6, "limits": {"size": 9000}, "ops": ops}]
    # the oldest tracked file moves to the same name under another subdirectory; the destination is reported before the
    # (late) event for the source; then the limits are exceeded
    for lim in ({"count": 3}, {"count": 3, "size": 20000}, {"duration": 1000}):
        for mid in ([{"o": "created", "f": 6}, {"o": "deleted", "f": 0, "really": False}],
                    [{"o": "rescan", "kind": "existing"}, {"o": "moved_late", "f": 0, "t": 6}]):
            out.append({"nch": 1, "kinds": ["rf"], "slots": 6, "limits": lim, "ops": [
                {"o": "create", "f": 0, "size": 2048, "event": True}, {"o": "create", "f": 1, "size": 2048, "event": True},
                {"o": "rename_sub", "f": 0}] + mid + [{"o": "create", "f": i, "size": 2048, "event": True} for i in (2, 3, 4, 5)]})
    # limits in combination: one group fills the size limit, then the FIRST file of another group (second channel, or the
    # channel's metadata) is reported - every configured limit must hold again afterwards
    for lim in ({"size": 8192, "duration": 2500}, {"size": 8192, "duration": 2500, "count": 5}, {"size": 8192, "count": 5}):
        for nch, kinds in ((2, ["rf"]), (1, ["rf", "dmd"])):
            out.append({"nch": nch, "kinds": kinds, "slots": 6, "limits": lim, "ops":
                        [{"o": "create", "f": i, "size": 2048, "event": True} for i in (0, 1, 2, 3)] +
                        [{"o": "create", "f": 6, "size": 2048, "event": True}, {"o": "create", "f": 7, "size": 2048, "event": True}]})
    # "all available space except N" with a time window: files outside the window exist when the ringbuffer is made (they
    # are not its business and do not count as reclaimable space)
    for win in ([T0 * 1000 + 1000, None, False], [None, T0 * 1000 + 1500, True]):
        pre = [[0, 4096], [1, 4096], [4, 4096], [5, 4096]]
        out.append({"nch": 1, "kinds": ["rf"], "slots": 6, "limits": {"size": 3 * 2048}, "win": win, "negsize": pre, "cli": 0, "ops":
                    [{"o": "rescan", "kind": "existing"}] + [{"o": "create", "f": i, "size": 2048, "event": True} for i in (2, 3)] +
                    [{"o": "modify", "f": 2, "size": 4096, "event": True}, {"o": "modify", "f": 3, "size": 3000, "event": True}]})
    # a tracked file renamed to another valid name of its channel while the channel is exactly at its limit: nothing is
    # over any limit before, during or after the rename
    for lim in ({"count": 3}, {"size": 3 * 2048}, {"count": 3, "size": 3 * 2048}):
        out.append({"nch": 1, "kinds": ["rf"], "slots": 6, "limits": lim, "ops":
                    [{"o": "create", "f": i, "size": 2048, "event": True} for i in (0, 1, 2)] + [{"o": "move_final", "f": 2, "t": 3},
                     {"o": "move_final", "f": 1, "t": 2}, {"o": "create", "f": 4, "size": 2048, "event": True}]})
    # the real observer threads
    for sc in ("existing-then-live", "late-root", "root-replaced"):
        out.append({"live": sc, "verbose": sc == "late-root", "ops": [], "limits": {"count": 3}})
    for mt in ("future", "old"):
        out.append({"live": "existing-then-live", "mtimes": mt, "verbose": False, "ops": [], "limits": {"count": 3}})
    # recordings that begin at the epoch: the oldest file of the group has time 0
    for lim in ({"count": 2}, {"size": 8192}, {"duration": 1000}):
        out.append({"nch": 1, "kinds": ["rf", "dmd"], "slots": 6, "limits": lim, "t0": 0, "ops":
                    [{"o": "create", "f": i, "size": 2048, "event": True} for i in (0, 2, 4, 5)] + [{"o": "rescan", "kind": "existing"}] +
                    [{"o": "create", "f": i, "size": 2048, "event": True} for i in (6, 7, 8, 9)] + [{"o": "rescan", "kind": "verify"}]})
    # while the observer was down a tracked file that is NOT the oldest vanished and a new one appeared, at the limit: the
    # re-scan must not delete anything (the true count never exceeded the limit)
    for lim in ({"count": 3}, {"count": 3, "size": 3 * 2048}):
        out.append({"nch": 1, "kinds": ["rf"], "slots": 6, "limits": lim, "ops":
                    [{"o": "create", "f": i, "size": 2048, "event": True} for i in (0, 1, 2)] +
                    [{"o": "unlink", "f": 2}, {"o": "create", "f": 3, "size": 2048, "event": False}, {"o": "rescan", "kind": "verify"},
                     {"o": "unlink", "f": 1}, {"o": "create", "f": 4, "size": 2048, "event": False}, {"o": "rescan", "kind": "verify"}]})
    return out


def shrink_candidates(case):
    if case.get("live"):
        return
    ops = case["ops"]
    for i in range(len(ops) - 1, -1, -1):
        if len(ops) > 1:
            yield dict(case, ops=ops[:i] + ops[i + 1:])
    for k in list(case["limits"]):
        if len(case["limits"]) > 1:
            yield dict(case, limits={a: b for a, b in case["limits"].items() if a != k})


# ------------------------------------------------------------------ exhaustive tier
def alphabet_op(sym, state):
    """Concrete op for a symbol of the small alphabet (6 files: 2 groups x 3 slots)."""
    if sym < 6:
        return {"o": "create", "f": sym, "size": 2048, "event": True}
    if sym == 6:
        return {"o": "modify", "f": 0, "size": 4096, "event": True}
    if sym == 7:
        return {"o": "deleted", "f": 2, "really": True}
    if sym == 8:
        return {"o": "rescan", "kind": "verify"}
    return {"o": "unlink", "f": 3}


ENUM_LIMITS = [{"size": 2 * 4096}, {"count": 2}, {"duration": 1000}, {"size": 2 * 4096, "count": 2}, {"size": 2 * 4096, "duration": 1000},
               {"count": 2, "duration": 1000}, {"size": 2 * 4096, "count": 2, "duration": 1000}]


def _enum_chunk(args):
    first, maxlen = args
    out = {"n": 0, "nt": 0, "fails": []}
    from vlib import build

    build.activate()
    for L in range(1, maxlen + 1):
        for rest in itertools.product(range(10), repeat=L - 1):
            seq = (first,) + rest
            for lim in ENUM_LIMITS:
                case = {"nch": 1, "kinds": ["rf", "dmd"], "slots": 3, "limits": lim, "ops": [alphabet_op(s, None) for s in seq]}
                fails = []
                info = run_sim(case, lambda s, d: fails.append((s, d)))
                out["n"] += 1
                if info["irregular"] and info["expiries"]:
                    out["nt"] += 1
                if fails and len(out["fails"]) < 20:
                    out["fails"].append((fails[0][0], fails[0][1], case))
    return out


def extra(tier, seed, camp):
    maxlen = 4 if tier == "quick" else 5
    ctx = multiprocessing.get_context("fork")
    with ctx.Pool(16) as pool:
        outs = pool.map(_enum_chunk, [(f, maxlen) for f in range(10)], chunksize=1)
    n = sum(o["n"] for o in outs)
    camp.evaluations += n
    camp.cases += n
    camp.nontrivial_extra += sum(o["nt"] for o in outs)
    camp.extra_cov["enum_sequences"] = n
    camp.extra_cov["enum_scope"] = "all sequences of length <= %d over a 10-symbol alphabet (6 creations on 2 groups x 3 slots, modify-grow, deleted, rescan, unlink) x 7 limit sets; exhaustive" % maxlen
    seen = set()
    for o in outs:
        for sig, d, case in o["fails"]:
            if sig in seen:
                continue
            seen.add(sig)
            r = Result()
            r.fail(sig, d)
            camp.record(case, r)
