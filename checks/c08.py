"""C08 - reader query coherence (DESIGN.md section 4, C08)."""
from __future__ import annotations

import os

import h5py
import numpy as np
from hypothesis import strategies as st

from checks import c01
from vlib import rfharness, rfmodel, strategies as S
from vlib.campaign import Result

PID = "C08"
LEVEL = "exploration"
TECHNIQUE = "property-based testing with metamorphic relations between reader queries on generated channels (block lengths vs read, split invariance, subchannel selection, bounds, vector reads vs coverage from the reference model)"
RULE = (
    "A channel is generated and written as in C01, then 20-40 queries are drawn on file / block / gap edges (+-1): "
    "(1) get_continuous_blocks == lengths of read; (2) read(a,b) == merge(read(a,m), read(m+1,b)); (3) "
    "sub_channel=j == column j; (4) get_bounds == first/last index any read returns, and reads outside return "
    "nothing; (5) read_vector_raw / read_vector / read_vector_1d return exactly the requested samples (shape and "
    "dtype per the docs, values = numpy conversion of the stored ones) when the model says the range is fully "
    "covered by one block and raise IOError otherwise; (6) get_properties(sample=k) == attributes of the file the "
    "model places k in, IOError when that file does not exist. Non-trivial: a query whose range / split point is on "
    "a file edge, a gap edge or a single-sample block."
)
ASSUMPTIONS = c01.ASSUMPTIONS[:2] + ["64-bit integers convert to the nearest representable float (what 'documented floating type' allows)"]
FLOORS = {"nontrivial": 0.5}


def budget(tier):
    return {"examples": 200 if tier == "quick" else 400, "shards": 1 if tier == "quick" else 16}


@st.composite
def _cases(draw, tier):
    cfg = draw(S.rf_configs(spf_cap=1024))
    ops = draw(S.write_ops(cfg, max_calls=6, max_files=3))
    m = rfmodel.Model(cfg)
    for op in ops:
        m.apply(op)
    pts = m.interesting_points()
    nq = draw(st.integers(20, 30 if tier == "quick" else 40))
    queries = []
    blocks = m.merged_runs()
    for _ in range(nq):
        kind = draw(st.sampled_from(["blocks", "split", "sub", "vec", "vec", "props", "outside"]))
        a = draw(st.sampled_from(pts))
        b = draw(st.sampled_from(pts))
        if b < a:
            a, b = b, a
        if kind == "split":
            mid = draw(st.one_of(st.sampled_from([p for p in pts if a <= p <= b] or [a]), st.integers(a, b)))
            queries.append({"q": "split", "a": a, "b": b, "m": mid})
        elif kind == "sub":
            queries.append({"q": "sub", "a": a, "b": b, "j": draw(st.integers(0, cfg["nsub"] - 1))})
        elif kind == "vec":
            blk = draw(st.sampled_from(blocks))
            mode = draw(st.integers(0, 6))
            if mode == 0:
                s, L = blk[0], 1
            elif mode == 1:
                s, L = blk[0], cfg["nsub"]
            elif mode == 2:
                s, L = blk[0], blk[1]
            elif mode == 3:
                s, L = blk[0], blk[1] + 1
            elif mode == 4:
                s, L = blk[0] + blk[1] - 1, 1
            elif mode == 5:
                s, L = max(0, blk[0] - 1), 2
            else:
                s = draw(st.integers(blk[0], blk[0] + blk[1] - 1))
                L = draw(st.integers(1, max(1, blk[0] + blk[1] - s)))
            sc = draw(st.sampled_from([None, None, 0, cfg["nsub"] - 1]))
            fn = draw(st.sampled_from(["raw", "vector", "1d"]))
            queries.append({"q": "vec", "s": s, "L": min(L, 100000), "sc": sc, "fn": fn})
        elif kind == "props":
            queries.append({"q": "props", "k": a})
        elif kind == "outside":
            queries.append({"q": "outside", "d": draw(st.integers(1, 5000))})
        else:
            queries.append({"q": "blocks", "a": a, "b": b})
    return {"cfg": cfg, "ops": ops, "path": draw(st.sampled_from(["py", "py", "c"])), "queries": queries}


def strategy(tier):
    return _cases(tier)


def _eq_blocks(x, y):
    if [int(k) for k, _ in x] != [int(k) for k, _ in y]:
        return False
    for (_, a), (_, b) in zip(x, y):
        # numpy's concatenate may hand back native byte order; dtypes are compared up to byte order
        ca = a.dtype.newbyteorder("<")
        if a.shape != b.shape or ca != b.dtype.newbyteorder("<"):
            return False
        if np.ascontiguousarray(a).astype(ca).tobytes() != np.ascontiguousarray(b).astype(ca).tobytes():
            return False
    return True


def _merge(x, y):
    out = [(int(k), v) for k, v in x]
    for k, v in y:
        k = int(k)
        if out and out[-1][0] + len(out[-1][1]) == k:
            out[-1] = (out[-1][0], np.concatenate((out[-1][1], v)))
        else:
            out.append((k, v))
    return out


def expected_vector(cfg, m, rd, q):
    """(ok, array or None): what a vector read must return according to the model."""
    s, L = q["s"], q["L"]
    exp = m.expected_blocks(s, s + L - 1)
    if len(exp) != 1 or exp[0][0] != s or len(exp[0][1]) // rfmodel.sample_nbytes(cfg) != L:
        return False, None
    sd = rfmodel.stored_dtype(cfg)
    arr = np.frombuffer(exp[0][1], dtype=sd).reshape(L, cfg["nsub"]).copy()
    if exp[0][2]:
        # continuous-mode fill slots: values come from read() (C07 owns the fill value itself)
        got = rfharness.read_blocks(rd, s, s + L - 1, "ch0")
        if len(got) == 1 and got[0][1].shape == arr.shape:
            for lo, hi in exp[0][2]:
                arr[lo - s:hi - s + 1] = got[0][1][lo - s:hi - s + 1].astype(sd)
    return True, arr


def convert(cfg, arr, fn):
    if fn == "raw":
        return arr
    if arr.dtype.names is not None:
        out = np.empty(arr.shape, dtype=np.promote_types("c8", arr.dtype["r"]))
        out.real = arr["r"]
        out.imag = arr["i"]
        return out
    return np.asarray(arr, dtype=np.promote_types("f4", arr.dtype))


def run_case(case):
    res = Result()
    cfg = case["cfg"]
    tag = ":" + case["path"]
    m = c01.build_model(case)
    edges = set()
    for ms in m.file_windows():
        lo, hi = rfmodel.window(cfg, ms)
        edges.update((lo, hi - 1, lo - 1, hi))
    for s, ln, _ in m.merged_runs():
        edges.update((s, s + ln - 1, s - 1, s + ln))
    single = {s for s, ln, _ in m.merged_runs() if ln == 1}
    nt = 0
    with rfharness.scratch("c08") as top:
        for f in c01.execute(case, top):
            res.fail(*f)
        if res.failures:
            return res
        with rfharness.quiet_fds():
            rd = rfharness.drf().DigitalRFReader(top)
        ch = "ch0"
        seen = set()

        def fail(sig, detail):
            if sig not in seen:
                seen.add(sig)
                res.fail(sig + tag, detail)

        mb = m.bounds()
        try:
            b = rd.get_bounds(ch)
            spf = rfmodel.samples_per_file_max(cfg)
            allb = rfharness.read_blocks(rd, max(0, mb[0] - 3 * spf - 5), mb[1] + 3 * spf + 5, ch)
            if allb:
                rb = (int(allb[0][0]), int(allb[-1][0]) + len(allb[-1][1]) - 1)
                if tuple(int(x) for x in b) != rb:
                    fail("bounds-vs-read", "get_bounds %r, first/last index returned by a read %r" % (b, rb))
            elif b != (None, None):
                fail("bounds-vs-read", "get_bounds %r but reads return nothing" % (b,))
        except Exception as e:
            fail("bounds-exception", "%s: %s" % (type(e).__name__, e))
        for q in case["queries"]:
            res.evaluations += 1
            try:
                if q["q"] == "blocks":
                    a, e = q["a"], q["b"]
                    if a in edges or e in edges:
                        nt += 1
                    with rfharness.quiet_fds():
                        cb = rd.get_continuous_blocks(a, e, ch)
                    r = rfharness.read_blocks(rd, a, e, ch)
                    if [(int(k), int(v)) for k, v in cb.items()] != [(int(k), len(v)) for k, v in r]:
                        fail("blocks-vs-read", "[%d,%d] get_continuous_blocks %r, read %r" % (
                            a, e, list(cb.items())[:5], [(int(k), len(v)) for k, v in r][:5]))
                elif q["q"] == "split":
                    a, e, mid = q["a"], q["b"], q["m"]
                    if mid in edges or mid + 1 in edges or a in edges or e in edges or mid in single:
                        nt += 1
                    whole = rfharness.read_blocks(rd, a, e, ch)
                    left = rfharness.read_blocks(rd, a, mid, ch)
                    right = rfharness.read_blocks(rd, mid + 1, e, ch) if mid + 1 <= e else []
                    if not _eq_blocks(whole, _merge(left, right)):
                        fail("split", "read(%d,%d) keys %r != merge of split at %d: %r + %r" % (
                            a, e, [(int(k), len(v)) for k, v in whole][:5], mid,
                            [(int(k), len(v)) for k, v in left][:5], [(int(k), len(v)) for k, v in right][:5]))
                elif q["q"] == "sub":
                    a, e, j = q["a"], q["b"], q["j"]
                    if a in edges or e in edges:
                        nt += 1
                    whole = rfharness.read_blocks(rd, a, e, ch)
                    sub = rfharness.read_blocks(rd, a, e, ch, sub_channel=j)
                    if not _eq_blocks([(k, v[:, j]) for k, v in whole], sub):
                        fail("subchannel", "read(%d,%d,sub_channel=%d) differs from column %d of the full read" % (a, e, j, j))
                elif q["q"] == "outside":
                    d = q["d"]
                    for a, e in ((max(0, mb[0] - d - 50), mb[0] - 1), (mb[1] + 1, mb[1] + d + 50)):
                        if e >= a >= 0:
                            r = rfharness.read_blocks(rd, a, e, ch)
                            if r:
                                fail("data-outside-bounds", "read(%d,%d) returned %r; bounds %r" % (a, e, [(int(k), len(v)) for k, v in r][:3], mb))
                elif q["q"] == "vec":
                    s, L = q["s"], q["L"]
                    if s in edges or s + L - 1 in edges or L == 1 or s in single:
                        nt += 1
                    ok, exp = expected_vector(cfg, m, rd, q)
                    fn = {"raw": rd.read_vector_raw, "vector": rd.read_vector, "1d": rd.read_vector_1d}[q["fn"]]
                    sc = q["sc"]
                    try:
                        with rfharness.quiet_fds():
                            got = fn(s, L, ch) if (sc is None and q["fn"] != "1d") else fn(s, L, ch, 0 if sc is None else sc)
                    except IOError as e:
                        if ok:
                            fail("vector-ioerror-on-covered-range", "%s(%d,%d,sub=%r): %s" % (q["fn"], s, L, sc, e))
                        continue
                    except Exception as e:
                        fail("vector-exception:%s" % type(e).__name__, "%s(%d,%d,sub=%r) covered=%s: %s" % (q["fn"], s, L, sc, ok, e))
                        continue
                    if not ok:
                        fail("vector-returned-data-for-missing-range", "%s(%d,%d,sub=%r) returned shape %r" % (q["fn"], s, L, sc, got.shape))
                        continue
                    eff_sc = sc if not (q["fn"] == "1d" and sc is None) else 0
                    e2 = exp if eff_sc is None else exp[:, eff_sc]
                    e2 = convert(cfg, e2, q["fn"])
                    if eff_sc is None and cfg["nsub"] == 1:
                        e2 = e2.reshape(L)
                    if got.shape != e2.shape:
                        fail("vector-shape", "%s(%d,%d,sub=%r) shape %r expected %r" % (q["fn"], s, L, sc, got.shape, e2.shape))
                    elif got.dtype.newbyteorder("<") != e2.dtype.newbyteorder("<"):
                        fail("vector-dtype", "%s(%d,%d,sub=%r) dtype %r expected %r" % (q["fn"], s, L, sc, got.dtype, e2.dtype))
                    elif np.ascontiguousarray(got).astype(e2.dtype).tobytes() != np.ascontiguousarray(e2).tobytes():
                        fail("vector-value", "%s(%d,%d,sub=%r) values differ from the stored samples" % (q["fn"], s, L, sc))
                elif q["q"] == "props":
                    k = q["k"]
                    rel = rfmodel.rel_path(cfg, k)
                    fp = os.path.join(top, ch, rel)
                    exists = os.path.exists(fp)
                    lo, hi = rfmodel.window(cfg, rfmodel.file_ms(cfg, k))
                    if k in (lo, hi - 1):
                        nt += 1
                    try:
                        with rfharness.quiet_fds():
                            p = rd.get_properties(ch, sample=k)
                    except IOError as e:
                        if exists:
                            fail("properties-ioerror-for-present-file", "sample %d in %s: %s" % (k, rel, e))
                        continue
                    except Exception as e:
                        fail("properties-exception:%s" % type(e).__name__, "sample %d (%s exists=%s): %s" % (k, rel, exists, e))
                        continue
                    if not exists:
                        fail("properties-for-absent-file", "sample %d: file %s does not exist but properties were returned" % (k, rel))
                        continue
                    with h5py.File(fp, "r") as f:
                        a = f["rf_data"].attrs
                        for key in ("sequence_num", "uuid_str", "init_utc_timestamp", "computer_time"):
                            v = a[key]
                            v = v.item() if hasattr(v, "item") else v
                            if isinstance(v, bytes):
                                v = v.decode()
                            if p.get(key) != v:
                                fail("properties-wrong-file", "sample %d: %s=%r but %s has %r" % (k, key, p.get(key), rel, v))
            except Exception as e:
                fail("query-exception:%s:%s" % (q["q"], type(e).__name__), "%r: %s" % (q, e))
        rd.close()
    res.nontrivial = nt * 2 >= len(case["queries"]) or nt >= 8
    if case["path"] == "c":
        res.cls("cpath")
    if cfg["cont"]:
        res.cls("continuous")
    for q in case["queries"]:
        if q["q"] == "vec" and q["L"] == 1:
            res.cls("vec-len-1")
            break
    return res


def shrink_candidates(case):
    qs = case["queries"]
    for i in range(len(qs) - 1, -1, -1):
        if len(qs) > 1:
            yield dict(case, queries=qs[:i] + qs[i + 1:])
    for c in c01.shrink_candidates(dict(case, reads=[[0, 0]])):
        yield c
