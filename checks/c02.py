"""C02 - kill-safe publication of data files (DESIGN.md section 4, C02).  Also hosts the machinery of C09."""
from __future__ import annotations

import os
import re

from hypothesis import strategies as st

from checks import c06
from vlib import fsx, rfharness, rfmodel, strategies as S, treeutil
from vlib.campaign import Result

PID = "C02"
LEVEL = "fault_enumeration"
ENGINE = "fsx+pbt"
TECHNIQUE = "crash-point enumeration: Hypothesis generates recordings; an LD_PRELOAD interposer blocks the writer before every file-system operation and the on-disk tree at that instant is judged (a sample of points is re-run with a real SIGKILL and compared)"
RULE = (
    "Hypothesis draws small-file configurations and write sequences (C API driver, 1 in 5 through the Python writer in "
    "a child process). The interposer numbers every open/creat, write/pwrite, ftruncate, close, rename, mkdir, unlink "
    "under the data root and blocks the writer before each one: that tree is what kill -9 at that instant leaves. At "
    "EVERY point: each rf@*.h5 not starting with tmp. opens with h5py, passes the C06 structure check and keeps the "
    "SHA-256 it had when first seen; lsdrf lists no tmp. file; a fresh DigitalRFReader succeeds (or, while no "
    "properties file is visible, fails only with 'No channels found') and read over the whole span returns exactly the "
    "model's samples of the finalized files; after the clean close no tmp.* remains and the reader returns the whole "
    "model. A drawn subset of points is executed as a real SIGKILL and the resulting tree compared with the paused "
    "snapshot; after each real kill the recorder is restarted on that tree (inside the killed file period when a tmp. "
    "file was left, else after the data): finalized files must stay byte-identical, every final-named file valid, and a "
    "reader must return only samples of one of the two sessions. Exhaustive over the points of each generated sequence. Non-trivial point: a finalized file and an open "
    "tmp. file coexist, or the point lies between a close and its rename (distinct_nontrivial counts such points, "
    "which are distinct by construction within a sequence, plus the sequences with >= 30 % of them)."
)
ASSUMPTIONS = [
    "a crash is the death of the process with the page cache intact (as the property states)",
    "fault points are those of HDF5 1.10.8 (system library); the shipped wheel uses 1.14.5",
]
FLOORS = {"nontrivial": 0.5}
RE_FINAL = re.compile(r"^rf@\d+\.\d{3}\.h5$")


def budget(tier):
    return {"examples": 10 if tier == "quick" else 40, "shards": 1 if tier == "quick" else 16,
            "examples2": 200 if tier == "quick" else 100}


# second stage: "a file under a final name ... its bytes never change again" and "a reader opened on the tree succeeds" also when
# LATER recording sessions run on the same channel (restarts, collisions with finalized periods)
SESSION_KEEP = ("finalized-file-changed", "finalized-file-disappeared", "union-read-exception")


def strategy2(tier):
    from checks import c11
    return c11.session_strategy(tier)


@st.composite
def _cases(draw, tier):
    cfg = draw(S.rf_configs(spf_cap=128, boundary_p=0.5))
    ops = draw(S.write_ops(cfg, max_calls=4, max_files=3, allow_blocks=not cfg["cont"]))
    writer = draw(st.sampled_from(["c", "c", "c", "c", "py"]))
    kills = draw(st.lists(st.integers(0, 400), min_size=2, max_size=4 if tier == "quick" else 12))
    return {"cfg": cfg, "ops": ops, "writer": writer, "kills": kills}


def strategy(tier):
    return _cases(tier)


def final_files(ch):
    """(finals, tmps): relpaths below the channel directory."""
    fin, tmp = [], []
    for sub in sorted(os.listdir(ch)):
        p = os.path.join(ch, sub)
        if os.path.isdir(p):
            for fn in sorted(os.listdir(p)):
                if fn.startswith("tmp."):
                    tmp.append(sub + "/" + fn)
                elif RE_FINAL.match(fn):
                    fin.append(sub + "/" + fn)
        elif sub.startswith("tmp."):
            tmp.append(sub)
    return fin, tmp


def expected_for_files(cfg, m, finals):
    """Blocks the reader must return when exactly these files are visible (adjacent ones merged)."""
    blocks = []
    for rel in sorted(finals, key=lambda r: (int(r.split("@")[1].split(".")[0]), int(r.split("@")[1].split(".")[1]))):
        st_ = rel.split("@")[1]
        ms = int(st_.split(".")[0]) * 1000 + int(st_.split(".")[1])
        lo, hi = rfmodel.window(cfg, ms)
        for b in m.expected_blocks(lo, hi - 1):
            if blocks and blocks[-1][0] + len(blocks[-1][1]) // rfmodel.sample_nbytes(cfg) == b[0]:
                p = blocks[-1]
                blocks[-1] = (p[0], p[1] + b[1], (p[2] or []) + (b[2] or []) if (p[2] is not None or b[2] is not None) else None)
            else:
                blocks.append(b)
    return blocks


def reader_pass(cfg, m, top, finals, fail, where, reader=None):
    """Open (or reuse) a reader and compare a whole-span read with the finalized files.  Returns index->bytes map."""
    drf = rfharness.drf()
    props = os.path.join(top, "ch0", "drf_properties.h5")
    own = reader is None
    if own:
        try:
            with rfharness.quiet_fds():
                reader = drf.DigitalRFReader(top)
        except ValueError as e:
            if not os.path.exists(props) and "No channels found" in str(e):
                return None
            fail("reader-open-failed:ValueError", "%s: %s" % (where, e))
            return None
        except Exception as e:
            fail("reader-open-failed:%s" % type(e).__name__, "%s (properties file %s): %s" % (
                where, "visible, %d bytes" % os.path.getsize(props) if os.path.exists(props) else "absent", e))
            return None
    exp = expected_for_files(cfg, m, finals)
    mb = m.bounds()
    out = {}
    try:
        a, e = (max(0, mb[0] - 5), mb[1] + 5) if mb else (0, 10)
        got = rfharness.read_blocks(reader, a, e, "ch0")
        if len(got) != len(exp):
            fail("reader-blocks-differ", "%s: reader blocks %r, finalized files hold %r" % (
                where, [(int(k), len(v)) for k, v in got][:5], [(b[0], len(b[1]) // rfmodel.sample_nbytes(cfg)) for b in exp][:5]))
        else:
            for (k, arr), b in zip(got, exp):
                msg = rfmodel.compare_block(cfg, b, int(k), arr)
                if msg:
                    fail("reader-value", "%s: %s" % (where, msg))
                    break
        nb = rfmodel.sample_nbytes(cfg)
        import numpy as np
        sd = rfmodel.stored_dtype(cfg)
        for k, arr in got:
            raw = np.ascontiguousarray(arr).astype(sd, copy=False).tobytes()
            for i in range(arr.shape[0]):
                out[int(k) + i] = raw[i * nb:(i + 1) * nb]
        with rfharness.quiet_fds():
            b = reader.get_bounds("ch0")
        if exp:
            eb = (exp[0][0], exp[-1][0] + len(exp[-1][1]) // nb - 1)
            if tuple(int(x) for x in b) != eb:
                fail("reader-bounds", "%s: bounds %r, finalized files span %r" % (where, b, eb))
        elif b != (None, None):
            fail("reader-bounds", "%s: bounds %r but no finalized file" % (where, b))
    except Exception as e:
        fail("reader-exception:%s" % type(e).__name__, "%s: %s" % (where, e))
    finally:
        if own:
            reader.close()
    return out


class PointJudge:
    def __init__(self, case, top, fail):
        self.case, self.top, self.fail = case, top, fail
        self.cfg = case["cfg"]
        self.ch = os.path.join(top, "ch0")
        self.m = rfmodel.Model(self.cfg)
        for op in case["ops"]:
            self.m.apply(op)
        self.hashes = {}
        self.checked = set()
        self.points = 0
        self.nt_points = 0
        self.snaps = {}
        self.last = None
        self.want_snaps = set()

    def judge(self, k, name, what):
        self.points += 1
        where = "before op %d (%s %s)" % (k, name, os.path.basename(what.split(">")[0]))
        finals, tmps = final_files(self.ch)
        if (finals and tmps) or (self.last is not None and self.last[0] == "close" and name == "rename"):
            self.nt_points += 1
        self.last = (name, what)
        snap = treeutil.snapshot(self.ch)
        if k in self.want_snaps:
            self.snaps[k] = snap
        for rel in finals:
            h = snap[rel][2]
            if rel in self.hashes:
                if self.hashes[rel] != h:
                    self.fail("finalized-file-changed", "%s: %s" % (where, rel))
            else:
                self.hashes[rel] = h
                info, _ = rfharness.raw_files(self.ch)
                fi = info.get(rel)
                if fi is None or "error" in fi:
                    self.fail("finalized-file-unreadable", "%s: %s %s" % (where, rel, fi and fi.get("error")))
                else:
                    r = Result()
                    c06.check_structure(self.cfg, rel, fi, r, "")
                    for s, d in r.failures:
                        self.fail("finalized-file-structure:" + s, "%s: %s" % (where, d))
        for rel in list(self.hashes):
            if rel not in finals:
                self.fail("finalized-file-disappeared", "%s: %s" % (where, rel))
        drf = rfharness.drf()
        try:
            ls = drf.lsdrf(self.top)
            bad = [p for p in ls if os.path.basename(p).startswith("tmp.")]
            if bad:
                self.fail("listing-shows-tmp", "%s: %s" % (where, bad[:2]))
            listed = {os.path.relpath(p, self.ch) for p in ls if RE_FINAL.match(os.path.basename(p))}
            if os.path.exists(os.path.join(self.ch, "drf_properties.h5")) and listed != set(finals):
                self.fail("listing-differs-from-finalized", "%s: listed %r finalized %r" % (where, sorted(listed)[:3], finals[:3]))
        except Exception as e:
            self.fail("listing-exception:%s" % type(e).__name__, "%s: %s" % (where, e))
        reader_pass(self.cfg, self.m, self.top, finals, self.fail, where)

    def final(self):
        finals, tmps = final_files(self.ch)
        if tmps:
            self.fail("tmp-left-after-close", "%r" % tmps[:3])
        snap = treeutil.snapshot(self.ch)
        for rel, h in self.hashes.items():
            if rel not in snap or snap[rel][2] != h:
                self.fail("finalized-file-changed", "after close: %s" % rel)
        exp_files = {rfmodel.rel_path(self.cfg, rfmodel.window(self.cfg, ms)[0]) for ms in self.m.file_windows()}
        if set(finals) != exp_files:
            self.fail("files-after-close", "have %r expected %r" % (sorted(finals)[:3], sorted(exp_files)[:3]))
        reader_pass(self.cfg, self.m, self.top, finals, self.fail, "after close")


def run_case(case):
    if case.get("kind") == "sessions":
        from checks import c11
        return c11.run_sessions(case, SESSION_KEEP)
    res = Result()
    seen = set()

    def fail(sig, detail):
        if sig not in seen:
            seen.add(sig)
            res.fail(sig + ":" + case["writer"], detail)

    with rfharness.scratch("c02") as base:
        top = os.path.join(base, "data")
        ch = os.path.join(top, "ch0")
        os.makedirs(ch)
        judge = PointJudge(case, top, fail)
        # which points will be re-run as real kills (indices are reduced modulo the number of points later)
        trace_rc, ev, _ = fsx.run(case["writer"], case["cfg"], case["ops"], top, ch, base)
        nops = len([e for e in ev if e[0] == "OP"])
        import shutil
        shutil.rmtree(ch)
        os.makedirs(ch)
        if trace_rc != 0 or nops == 0:
            res.fail("trace-run-failed:" + case["writer"], "rc=%s ops=%d" % (trace_rc, nops))
            return res
        kills = sorted({k % nops for k in case["kills"]})
        judge.want_snaps = set(kills)
        rc, ev2, npoints = fsx.run_paused(case["writer"], case["cfg"], case["ops"], top, ch, base, lambda k, n, w: (judge.judge(k, n, w), "c")[1])
        if rc != 0:
            fail("writer-failed-under-pause", "rc=%s" % rc)
        if npoints != nops:
            fail("nondeterministic-op-count", "trace %d paused %d" % (nops, npoints))
        judge.final()
        res.evaluations = judge.points + 1
        # ---- pause == kill validation on a drawn subset
        for k in kills:
            kd = os.path.join(base, "kill%d" % k)
            kch = os.path.join(kd, "data", "ch0")
            os.makedirs(kch)
            # same absolute paths are not required: snapshots are relative to the channel directory
            rck, _evk, _ = fsx.run(case["writer"], case["cfg"], case["ops"], os.path.join(kd, "data"), kch, kd, {"FSX_KILL_AT": str(k)})
            snap = treeutil.snapshot(kch)
            if rck != -9:
                fail("kill-run-did-not-die", "kill at %d: rc=%s" % (k, rck))
            elif k in judge.snaps and {r: v[:2] for r, v in snap.items()} != {r: v[:2] for r, v in judge.snaps[k].items()}:
                fail("pause-differs-from-kill", "op %d: %s" % (k, treeutil.diff(judge.snaps[k], snap)))
            else:
                res.cls("kill-validated")
            res.evaluations += 1
            if rck == -9:
                _restart_after_kill(case, judge, kd, kch, k, fail, res)
            shutil.rmtree(kd, ignore_errors=True)
        res.nontrivial = judge.nt_points * 10 >= judge.points * 3
        res.nt_units = judge.nt_points
        res.cls("writer:" + case["writer"])
        res.classes.append("points:%d" % 0) if False else None
    return res


def _restart_after_kill(case, judge, kd, kch, k, fail, res):
    """The recorder is restarted on the tree a kill left behind (new session, inside the period of the file that was
    open at the kill if there is one, else right after the data): whatever the restarted writer does, files finalized
    before must stay byte-identical and everything under a final name must be a valid, truthful file."""
    cfg = case["cfg"]
    finals0, tmps0 = final_files(kch)
    before = treeutil.snapshot(kch)
    m1 = judge.m
    spf = rfmodel.samples_per_file_max(cfg)
    stale = [t for t in tmps0 if "/" in t and t.split("/")[1].startswith("tmp.rf@")]
    if stale:
        st_ = stale[-1].split("@")[1]
        ms = int(st_.split(".")[0]) * 1000 + int(st_.split(".")[1])
        lo, hi = rfmodel.window(cfg, ms)
        start2 = lo + (hi - lo) // 2
        res.cls("restart-in-killed-period")
    else:
        mb = m1.bounds()
        start2 = (mb[1] + 1 + spf) if mb else cfg["start"]
    cfg2 = dict(cfg, start=start2, salt=cfg["salt"] + 17, uuid="restarted")
    ops2 = [{"op": "w", "idx": 0, "len": max(1, spf // 3)}, {"op": "w", "idx": 2 * spf + 1, "len": max(1, spf // 2)}]
    if k % 2 == 0:
        ops2 = ops2[:1]  # the restarted session only tries the killed period and is closed again
    rc, ev, err = rfharness.run_driver(cfg2, ops2, kch, kd)
    dr = rfharness.driver_results(ev, len(ops2))
    where = "restart after kill at op %d (start %d)" % (k, start2)
    if rc != 0 and not (dr and max(dr) == len(ops2) + 1):
        fail("restarted-writer-crashed", "%s: rc=%s %s" % (where, rc, err[-300:]))
        return
    m2 = rfmodel.Model(cfg2)
    accepted = {}
    for j, op in enumerate(ops2):
        if dr.get(j + 1, {}).get("rc") == 0:
            mm = rfmodel.Model(cfg2)
            mm.call = j
            mm.apply(dict(op, cid=j))
            e2, _f2 = __import__("checks.c09", fromlist=["model_map"]).model_map(cfg2, mm, None)
            accepted.update(e2)
    after = treeutil.snapshot(kch)
    for rel in finals0:
        if rel not in after or after[rel][2] != before[rel][2]:
            fail("finalized-file-changed-by-restart", "%s: %s" % (where, rel))
    finals1, tmps1 = final_files(kch)
    info, _ = rfharness.raw_files(kch)
    for rel in finals1:
        fi = info.get(rel)
        if fi is None or "error" in fi:
            fail("unreadable-final-file-after-restart", "%s: %s %s" % (where, rel, fi and fi.get("error")))
            continue
        r = Result()
        c06.check_structure(cfg, rel, fi, r, "")
        for sg, d in r.failures:
            fail("final-file-structure-after-restart:" + sg, "%s: %s" % (where, d))
    # reader: every returned sample belongs to the first or to the restarted session
    from checks import c09
    exp1, fills1 = c09.model_map(cfg, m1, None)
    try:
        with rfharness.quiet_fds():
            rd = rfharness.drf().DigitalRFReader(os.path.dirname(kch))
        lo = min(list(exp1) + list(accepted) + [start2])
        hi = max(list(exp1) + list(accepted) + [start2])
        got = c09.full_pass(cfg, _SpanModel(lo, hi), rd, lambda sg, d: fail("reader-after-restart:" + sg, "%s: %s" % (where, d)), where, [0, 0])
        rd.close()
        cont_fill = cfg["cont"] and not rfmodel.chunked(cfg)
        for idx, v in (got or {}).items():
            if idx in accepted:
                if v != accepted[idx] and not cont_fill:
                    fail("wrong-value-after-restart", "%s: index %d" % (where, idx))
                    break
            elif idx in exp1:
                if v != exp1[idx] and idx not in fills1:
                    fail("wrong-value-after-restart", "%s: index %d" % (where, idx))
                    break
            elif not cont_fill:
                fail("unwritten-sample-after-restart", "%s: index %d readable but written by neither session" % (where, idx))
                break
        missing = [i for i in accepted if i not in (got or {})]
        if missing:
            fail("restarted-session-lost-samples", "%s: %d accepted samples unreadable, first %d" % (where, len(missing), min(missing)))
    except ValueError as e:
        if os.path.exists(os.path.join(kch, "drf_properties.h5")) or "No channels found" not in str(e):
            fail("reader-after-restart:open:ValueError", "%s: %s" % (where, e))
    except Exception as e:
        fail("reader-after-restart:open:%s" % type(e).__name__, "%s: %s" % (where, e))
    res.evaluations += 1


class _SpanModel:
    """Minimal stand-in giving full_pass the span to read."""

    def __init__(self, lo, hi):
        self._b = (lo, hi)

    def bounds(self):
        return self._b


def shrink_candidates(case):
    if case.get("kind") == "sessions":
        from checks import c11
        yield from c11.session_shrink(case)
        return
    ops = case["ops"]
    for i in range(len(ops) - 1, -1, -1):
        if len(ops) > 1:
            yield dict(case, ops=ops[:i] + ops[i + 1:])
    if case["writer"] == "py":
        yield dict(case, writer="c")
    if len(case["kills"]) > 1:
        yield dict(case, kills=case["kills"][:1])
    cfg = case["cfg"]
    for key, val in (("nsub", 1), ("cplx", 0), ("comp", 0), ("checksum", 0), ("order", "<")):
        if cfg[key] != val:
            yield dict(case, cfg=dict(cfg, **{key: val}))


def props_window(case, sig=None, detail=None):
    """F10: the failure happened while drf_properties.h5 was being created (op inside the init call)."""
    return bool(detail) and ("drf_properties.h5" in detail or "properties file visible" in detail)


PREDICATES = {"props_window": props_window}
