"""C12 - Digital Metadata round-trip (DESIGN.md section 4, C12)."""
from __future__ import annotations

import copy
import os
import time

import numpy as np
from hypothesis import strategies as st

from vlib import mdharness as M, rfharness
from vlib.campaign import Result

PID = "C12"
LEVEL = "exploration"
TECHNIQUE = "stateful property-based testing: generated write/duplicate/reopen/read histories of Digital Metadata against a dict model that applies the documented distribution and normalisation rules"
RULE = (
    "Histories of 3-12 (thorough: up to 25) steps over one metadata channel: single writes, dict-of-arrays batches "
    "(the model applies the documented rule: a non-string value whose len equals the number of samples is "
    "distributed, anything else replicated; N=1 included), list-of-dicts batches, duplicate writes, writer re-open, "
    "new readers; sample indices ascending and drawn around file boundaries ceil(j*C*n/d)+-1 with several samples "
    "per file, starting in 1980-2100 or just before the file stamp gains a digit (10, 100, 1000, 10^9 s). After the history 12-20 queries: read(a,b) with columns None / str / list, forward fill, "
    "read_latest, get_bounds, get_fields, read_flatdict index; endpoints on samples +-1, file boundaries +-1, "
    "between two samples of one file, outside the bounds. Oracle: dict model index -> normalised value. "
    "Non-trivial: a query endpoint on a file boundary, or a forward-fill query whose answer file holds a later "
    "sample, or bounds over a file whose keys differ in decimal length."
    ' Also: back-filled samples below everything written with readers that looked at the channel before, unsorted batches in one call, numpy integer index arguments, integer-valued float / numpy parameters, prefixes such as tmp102 / duty50%% / x.y, dictionaries nested three levels, a young unreadable file (another process writing) during the queries, directed digit-count changes inside inner files of a multi-file read.'
)
RULE += ' Since rounds 7-8: the in-progress file of another host with its clock ahead, read-only archives, callers that empty what they passed / received, single-index forward fill, fill with columns.'
RULE += ' Round 9: directed range reads that reach into the period of a file another process has just begun.'
ASSUMPTIONS = ["overlay build of /repo; h5py 3.16 from /venv",
               "values are limited to what h5py can store (object arrays of str for lists of strings)"]
FLOORS = {"nontrivial": 0.4}


def budget(tier):
    return {"examples": 110 if tier == "quick" else 300, "shards": 1 if tier == "quick" else 16}


# ------------------------------------------------------------------ model helpers
def normalise_obj(v):
    if isinstance(v, dict):
        return {k: normalise_obj(x) for k, x in v.items()}
    if v is None:
        return ""
    if isinstance(v, np.generic):
        return v.item()
    if isinstance(v, np.ndarray):
        if v.dtype == object:
            return [str(x) for x in v.tolist()]
        return v
    return v


def flatten(d, prefix=""):
    out = {}
    for k, v in d.items():
        if isinstance(v, dict):
            out.update(flatten(v, prefix + k + "/"))
        else:
            out[prefix + k] = v
    return out


def unflatten(flat):
    out = {}
    for k, v in flat.items():
        parts = k.split("/")
        cur = out
        for p in parts[:-1]:
            cur = cur.setdefault(p, {})
        cur[parts[-1]] = v
    return out


def distribute(data_obj, N):
    """Apply the documented dict-form rule.  Returns list of N nested dicts (raw Python objects)."""
    flat = flatten(data_obj)
    per = [dict() for _ in range(N)]
    for key, val in flat.items():
        dist = False
        if not isinstance(val, str):
            try:
                dist = len(val) == N
            except TypeError:
                dist = False
        for i in range(N):
            per[i][key] = val[i] if dist else val
    return [unflatten(p) for p in per]


# ------------------------------------------------------------------ generation
@st.composite
def field_specs(draw):
    names = draw(st.lists(st.sampled_from(["alpha", "b", "c_3", "Zed", "note"]), min_size=1, max_size=3, unique=True))
    specs = [{"name": n, "sub": None} for n in names]
    if draw(st.integers(0, 2)) == 0:
        specs.append({"name": "grp", "sub": draw(st.lists(st.sampled_from(["x", "y", "zz"]), min_size=1, max_size=2, unique=True))})
    if draw(st.integers(0, 3)) == 0:
        # dictionaries nested three levels deep, with the same lower-level names under two different parents
        specs.append({"name": "deep", "sub": None, "deep": True})
    return specs


def _deep(leaf):
    return {"t": "dict", "v": {"rx": {"t": "dict", "v": {"antenna": {"t": "dict", "v": {"name": leaf(), "gain": leaf()}}, "cfg": leaf()}},
                                "tx": {"t": "dict", "v": {"antenna": {"t": "dict", "v": {"name": leaf()}}, "cfg": leaf()}}}}


@st.composite
def sample_dict(draw, specs, forbid_len=None):
    out = {}
    for sp in specs:
        if sp.get("deep"):
            out[sp["name"]] = _deep(lambda: draw(M.leaf_values()))
        elif sp["sub"] is None:
            out[sp["name"]] = draw(M.leaf_values())
        else:
            out[sp["name"]] = {"t": "dict", "v": {s: draw(M.leaf_values()) for s in sp["sub"]}}
    return out


@st.composite
def per_sample_leaf(draw, N):
    """A dict-form value with len == N (distributed)."""
    c = draw(st.integers(0, 3))
    if c == 0:
        return {"t": "list", "v": [draw(st.one_of(st.builds(lambda v: {"t": "int", "v": v}, st.integers(-10 ** 9, 10 ** 9)),
                                                  st.builds(lambda v: {"t": "str", "v": v}, M.TEXT))) for _ in range(N)]}
    if c == 1:
        return draw(M.array_values(first_dim=N))
    if c == 2:
        return {"t": "strarr", "v": [draw(M.TEXT) for _ in range(N)]}
    return {"t": "list", "v": [draw(M.scalar_values().filter(lambda t: t["t"] != "none")) for _ in range(N)]}


@st.composite
def dict_of_arrays(draw, specs, N):
    out = {}

    def leaf():
        if draw(st.integers(0, 1)):
            return draw(per_sample_leaf(N))
        return draw(M.leaf_values())

    for sp in specs:
        if sp.get("deep"):
            out[sp["name"]] = _deep(leaf)
        elif sp["sub"] is None:
            out[sp["name"]] = leaf()
        else:
            out[sp["name"]] = {"t": "dict", "v": {s: leaf() for s in sp["sub"]}}
    return out


def next_index(draw, p, last, used_files):
    n, d, C = p["n"], p["d"], p["C"]
    mode = draw(st.integers(0, 9))
    if last is None:
        if draw(st.integers(0, 5)) == 0:
            # file stamps that change their number of digits (9 -> 10 s, 99 -> 100 s, 999999999 -> 1000000000 s)
            t = draw(st.sampled_from([10, 100, 1000, 10 ** 9])) - draw(st.integers(1, 3)) * C
            j = max(0, t // C)
            return max(0, M.boundary_index(j, n, d, C) + draw(st.sampled_from([0, 0, 1])))
        j = draw(st.integers(M.T1980 // C + 1, M.T2100 // C - 100))
        base = M.boundary_index(j, n, d, C)
        return max(0, base + draw(st.sampled_from([-1, 0, 0, 1, 5])))
    if mode < 3:
        # bounded in time (<= 200 files ahead) so that low rates do not create thousands of candidate files
        return last + min(draw(st.sampled_from([1, 1, 2, 9, 10, 91, 100, 901])), max(1, 200 * C * n // d))
    if mode < 8:
        if draw(st.integers(0, 3)) == 0:
            # first sample of the next subdirectory
            S_ = p["S"]
            js = ((last * d) // n) // S_ + 1
            k = M.boundary_index(js, n, d, S_) + draw(st.sampled_from([-1, 0, 0, 1]))
            return k if k > last else last + 1
        j = ((last * d) // n) // C + draw(st.sampled_from([1, 1, 1, 2, 3, 61]))
        k = M.boundary_index(j, n, d, C) + draw(st.sampled_from([-1, 0, 0, 1]))
        return k if k > last else last + 1
    spf = max(1, (C * n) // d)
    return last + draw(st.integers(1, max(1, min(spf, 10 ** 6))))  # stays within about one file


@st.composite
def histories(draw, tier):
    p = draw(M.md_params())
    specs = draw(field_specs())
    nsteps = draw(st.integers(3, 12 if tier == "quick" else 25))
    steps = []
    last = None
    written = []
    for _ in range(nsteps):
        kind = draw(st.sampled_from(["w1", "w1", "w1", "wd", "wd", "wd", "wl", "wl", "dup", "dup", "reopen", "newreader", "newreader", "probe", "probe", "wback"]))
        if kind in ("dup", "wback") and not written:
            kind = "w1"
        if kind == "wback":
            # late (back-filled) metadata: an index below everything written so far, in the first file or in an earlier one
            lo = min(written)
            if draw(st.integers(0, 1)):
                k = lo - draw(st.integers(1, 5))
            else:
                j = ((lo * p["d"]) // p["n"]) // p["C"] - draw(st.sampled_from([0, 1, 1, 2, 61]))
                k = M.boundary_index(max(0, j), p["n"], p["d"], p["C"]) + draw(st.sampled_from([0, 0, 1]))
            if k < 0 or k >= lo:
                kind = "probe"
            else:
                written.append(k)
                if not any(s_["s"] == "probe" for s_ in steps):
                    steps.append({"s": "probe"})  # some reader has looked at the channel before the late sample arrives ...
                steps.append({"s": "wback", "k": k, "data": draw(sample_dict(specs))})
                steps.append({"s": "probe"})      # ... and looks again afterwards
                continue
        if kind == "w1":
            k = next_index(draw, p, last, None)
            last = k
            written.append(k)
            steps.append({"s": "w1", "k": k, "data": draw(sample_dict(specs))})
        elif kind in ("wd", "wl"):
            N = draw(st.integers(1, 4))
            ks = []
            for _i in range(N):
                last = next_index(draw, p, last, None)
                ks.append(last)
            written.extend(ks)
            if N > 1 and draw(st.integers(0, 2)) == 0:
                # one call, indices NOT in ascending order (element i of the data still belongs to index i of the call)
                ks = list(draw(st.permutations(ks)))
            if kind == "wd":
                steps.append({"s": "wd", "ks": ks, "data": draw(dict_of_arrays(specs, N))})
            else:
                steps.append({"s": "wl", "ks": ks, "data": [draw(sample_dict(specs)) for _i in range(N)]})
        elif kind == "dup":
            k = draw(st.sampled_from(written))
            extra = []
            if draw(st.integers(0, 1)):
                extra = [last + 1 + draw(st.integers(0, 5))]
            steps.append({"s": "dup", "k": k, "extra": extra, "data": draw(sample_dict(specs))})
        else:
            steps.append({"s": kind})
    if not written:
        k = next_index(draw, p, None, None)
        written.append(k)
        steps.append({"s": "w1", "k": k, "data": draw(sample_dict(specs))})
    # queries
    n, d, C = p["n"], p["d"], p["C"]
    pts = set()
    for k in written:
        pts.update((k - 1, k, k + 1))
        j = ((k * d) // n) // C
        for jj in (j, j + 1):
            b = M.boundary_index(jj, n, d, C)
            pts.update((b - 1, b, b + 1))
    ws = sorted(written)
    for a, b in zip(ws, ws[1:]):
        if b - a > 1:
            pts.add((a + b) // 2)
    margin = max(2, min(1000, 3 * C * n // d))
    pts.update((ws[0] - margin, ws[-1] + margin))
    pts = sorted(x for x in pts if x >= 0)
    top = [sp["name"] for sp in specs]
    queries = []
    for _ in range(draw(st.integers(12, 20))):
        a = draw(st.sampled_from(pts))
        b = draw(st.sampled_from(pts))
        if b < a:
            a, b = b, a
        qk = draw(st.sampled_from(["read", "read", "ffill", "ffill", "cols", "colstr", "latest", "bounds", "fields", "single", "nocolumn",
                                   "ffill1", "ffillcols"]))
        q = {"q": qk, "a": a, "b": b}
        if qk in ("cols",):
            q["columns"] = draw(st.lists(st.sampled_from(top), min_size=1, max_size=2, unique=True))
        if qk == "colstr":
            q["columns"] = draw(st.sampled_from(top))
        if qk in ("ffill", "ffill1", "ffillcols"):
            q["method"] = draw(st.sampled_from(["ffill", "pad"]))
        if qk == "ffillcols":
            q["columns"] = draw(st.one_of(st.sampled_from(top), st.lists(st.sampled_from(top), min_size=1, max_size=2, unique=True)))
        queries.append(q)
    # how sample indices are passed to writer and reader: Python ints, or the numpy integers that index arithmetic yields
    at = draw(st.sampled_from(["int", "int", "i64", "u64"]))
    # clock of the host that is writing the (unfinished) next file, relative to this one: the same, or ahead by 5 min / 3 h
    return {"p": p, "specs": specs, "steps": steps, "queries": queries, "at": at, "junk_skew": draw(st.sampled_from([0, 0, 300, 10800])),
            "readonly": draw(st.integers(0, 3)) == 0}


def strategy(tier):
    return histories(tier)


def directed_cases(tier):
    p = {"n": 1, "d": 1, "C": 100, "S": 100, "prefix": "md"}
    specs = [{"name": "v", "sub": None}]
    steps = [{"s": "w1", "k": k, "data": {"v": {"t": "int", "v": k}}} for k in (5, 9, 10, 30)]
    queries = [{"q": "bounds", "a": 0, "b": 0}, {"q": "ffill", "a": 12, "b": 20, "method": "ffill"}, {"q": "latest", "a": 0, "b": 0}]
    out = [{"p": p, "specs": specs, "steps": steps, "queries": queries}]
    # file stamps that gain a digit inside one subdirectory (9 -> 10 s, 99 -> 100 s, 999999999 -> 1000000000 s): time order
    # is not name order there
    for t in (10, 100, 1000000000):
        p2 = {"n": 1, "d": 1, "C": 1, "S": 3600, "prefix": "md"}
        ks = [t - 2, t - 1, t, t + 1]
        steps2 = [{"s": "w1", "k": k, "data": {"v": {"t": "int", "v": k}}} for k in ks]
        queries2 = [{"q": "bounds", "a": 0, "b": 0}, {"q": "read", "a": t - 2, "b": t + 1}, {"q": "latest", "a": 0, "b": 0},
                    {"q": "ffill", "a": t, "b": t + 1, "method": "ffill"}, {"q": "read", "a": t - 1, "b": t}]
        out.append({"p": p2, "specs": specs, "steps": steps2, "queries": queries2})
    # a read over four files whose INNER files hold indices with different numbers of digits (999 / 1000; 99999 / 100000)
    for C_, ks in ((400, [450, 990, 999, 1000, 1005, 1300, 1650]), (40000, [45000, 99990, 99999, 100000, 100001, 130000, 165000])):
        p3 = {"n": 1, "d": 1, "C": C_, "S": C_, "prefix": "md"}
        steps3 = [{"s": "w1", "k": k, "data": {"v": {"t": "int", "v": k}}} for k in ks]
        queries3 = [{"q": "read", "a": ks[0], "b": ks[-1]}, {"q": "read", "a": 0, "b": ks[-1] + 10}, {"q": "ffill", "a": ks[2], "b": ks[-1], "method": "ffill"},
                    {"q": "read", "a": ks[1], "b": ks[4]}, {"q": "bounds", "a": 0, "b": 0}]
        out.append({"p": p3, "specs": specs, "steps": steps3, "queries": queries3})
        # ... the same channel with range reads that reach into the period of the file another process has just begun
        out.append({"p": p3, "specs": specs, "steps": steps3, "junk_skew": 0, "readonly": False, "queries": [
            {"q": "read", "a": ks[0], "b": ks[-1] + 2 * C_}, {"q": "ffill", "a": ks[-1] + C_, "b": ks[-1] + 2 * C_, "method": "ffill"},
            {"q": "single", "a": (ks[-1] // C_ + 1) * C_, "b": 0}, {"q": "latest", "a": 0, "b": 0}, {"q": "read", "a": ks[0], "b": ks[-1]}]})
    return out


# ------------------------------------------------------------------ execution
def select_columns(val, columns):
    if columns is None:
        return val
    if isinstance(columns, str):
        return val[columns]
    return {c: val[c] for c in columns}


def check_read(res, tagf, what, got, model, keys, columns=None):
    gk = [int(k) for k in got.keys()]
    if gk != keys:
        extra = [k for k in gk if k not in keys]
        missing = [k for k in keys if k not in gk]
        if extra and not missing:
            sig = "read-extra-sample"
        elif missing and not extra:
            sig = "read-missing-sample"
        elif sorted(gk) == sorted(keys):
            sig = "read-order"
        else:
            sig = "read-wrong-keys"
        tagf(sig, "%s -> keys %r expected %r" % (what, gk[:8], keys[:8]))
        return
    for k, v in got.items():
        exp = select_columns(model[int(k)], columns)
        if not M.values_equal(exp, v):
            tagf("read-wrong-value", "%s sample %d: got %r expected %r" % (what, int(k), _short(v), _short(exp)))
            return
    # the caller does what it likes with a result (here: empties it); later reads must not be affected
    for v in got.values():
        scribble(v)


def scribble(o):
    """Destroy a caller-owned object in place (arrays zeroed, containers emptied)."""
    if isinstance(o, dict):
        for v in list(o.values()):
            scribble(v)
        o.clear()
    elif isinstance(o, list):
        for v in o:
            scribble(v)
        del o[:]
    elif isinstance(o, np.ndarray) and o.flags.writeable and o.dtype.kind in "iufcb":
        o[...] = 0


def _short(v):
    s = repr(v)
    return s if len(s) < 300 else s[:300] + "..."


def run_case(case, visible_hook=None):
    res = Result()
    p, specs = case["p"], case["specs"]
    n, d, C, S = p["n"], p["d"], p["C"], p["S"]
    drf = rfharness.drf()
    model = {}
    seen = set()

    def fail(sig, detail):
        if sig not in seen:
            seen.add(sig)
            res.fail(sig, detail)

    nt = False
    IT = {"int": int, "i64": np.int64, "u64": np.uint64}[case.get("at", "int")]

    def TL(ks):
        return [int(k) for k in ks] if IT is int else np.array(ks, dtype=IT)

    with rfharness.scratch("c12") as top:
        md = os.path.join(top, "md")
        os.makedirs(md)
        try:
            w = M.open_writer(md, S, C, n, d, p["prefix"], p.get("ptype", "int"))
        except Exception as e:
            res.fail("writer-open", "%s: %s" % (type(e).__name__, e))
            return res
        readers = []
        for si, st_ in enumerate(case["steps"]):
            res.evaluations += 1
            kind = st_["s"]
            try:
                if kind == "probe":
                    # readers that stay open look at the channel in the middle of the history (whatever they remember from
                    # it must not outlive the next write)
                    if not readers:
                        readers.append(drf.DigitalMetadataReader(md))
                    if model:
                        ka = sorted(model)
                        for r in readers:
                            gb = tuple(int(x) for x in r.get_bounds())
                            if gb != (ka[0], ka[-1]):
                                fail("bounds", "step %d: get_bounds %r expected %r" % (si, gb, (ka[0], ka[-1])))
                            check_read(res, lambda s_, dd: fail("latest-" + s_, dd), "step %d read_latest()" % si, r.read_latest(), model, [ka[-1]])
                            check_read(res, lambda s_, dd: fail("ffill-" + s_, dd), "step %d read(%d,%d,method='ffill')" % (si, ka[0], ka[0]),
                                       r.read(ka[0], ka[0], method="ffill"), model, [ka[0]])
                elif kind in ("w1", "wback"):
                    obj = {k: M.decode(v) for k, v in st_["data"].items()}
                    exp = distribute(copy.deepcopy(obj), 1)[0]
                    w.write(IT(st_["k"]), obj)
                    scribble(obj)  # the caller re-uses / empties its dictionary once the call has returned
                    model[st_["k"]] = normalise_obj(exp)
                elif kind == "wd":
                    obj = {k: M.decode(v) for k, v in st_["data"].items()}
                    per = distribute(copy.deepcopy(obj), len(st_["ks"]))
                    w.write(TL(st_["ks"]), obj)
                    scribble(obj)
                    for k, e in zip(st_["ks"], per):
                        model[k] = normalise_obj(e)
                elif kind == "wl":
                    objs = [{k: M.decode(v) for k, v in dd.items()} for dd in st_["data"]]
                    keep = copy.deepcopy(objs)
                    w.write(TL(st_["ks"]), objs)
                    scribble(objs)
                    objs = keep
                    for k, o in zip(st_["ks"], objs):
                        model[k] = normalise_obj(o)
                elif kind == "dup":
                    obj = {k: M.decode(v) for k, v in st_["data"].items()}
                    ks = [st_["k"]] + list(st_["extra"])
                    try:
                        if len(ks) == 1:
                            w.write(ks[0], obj)
                        else:
                            w.write(ks, [obj] * len(ks))
                        fail("duplicate-accepted", "write of existing index %d did not raise" % st_["k"])
                    except Exception:
                        pass
                    r = drf.DigitalMetadataReader(md)
                    got = r.read(st_["k"], st_["k"])
                    check_read(res, fail, "after refused duplicate read(%d)" % st_["k"], got, model, [st_["k"]])
                    for x in st_["extra"]:
                        if x not in model and len(r.read(x, x)):
                            fail("duplicate-batch-wrote-later-sample", "index %d written although the batch was refused at its first element" % x)
                elif kind == "reopen":
                    w = M.open_writer(md, S, C, n, d, p["prefix"], p.get("ptype", "int"))
                elif kind == "newreader":
                    readers.append(drf.DigitalMetadataReader(md))
            except Exception as e:
                fail("step-exception:%s:%s" % (kind, type(e).__name__), "step %d %s: %s" % (si, kind, e))
                return res
        if res.failures:
            return res
        readers.append(drf.DigitalMetadataReader(md))
        # the files of an archive are old: give them an old mtime, so that clean-up paths for "old unreadable files"
        # would act if a read ever took them
        for dp, dn, fn in os.walk(md):
            for f_ in fn:
                os.utime(os.path.join(dp, f_), (946684800, 946684800))
        keys_all = sorted(model)
        # ... except one: another process has just begun the file of the period after the newest sample (created, not yet
        # a valid HDF5 file).  Readers skip it; none may remove it - the other process would lose what it is writing
        junk = None
        # (its age is judged against the file cadence: a wide margin - or a modification time well in the future)
        if case.get("junk", True) and keys_all and (C >= 60 or case.get("junk_skew", 0) > 0):
            res.cls("unfinished-file-of-another-process" + (":clock-ahead" if case.get("junk_skew", 0) else ""))
            jt = (M.exact_file_ts(keys_all[-1], n, d, C) // C + 1) * C
            jp = os.path.join(md, os.path.dirname(M.exact_path(M.boundary_index(jt // C, n, d, C), n, d, C, S, p["prefix"])), "%s@%d.h5" % (p["prefix"], jt))
            if not os.path.exists(jp):
                os.makedirs(os.path.dirname(jp), exist_ok=True)
                with open(jp, "wb") as f_:
                    f_.write(b"\x89HDF\r\n\x1a\n" + b"\0" * 40)
                junk = jp
        ro_paths = []
        from vlib import unpriv
        if case.get("readonly") and unpriv.ENFORCED:
            # the channel is an archive nobody may modify (files r--r--r--, directories r-xr-xr-x): reading needs no more
            res.cls("read-only-archive")
            for dp_, _dn, fn_ in os.walk(md):
                ro_paths.append((dp_, 0o555))
                ro_paths.extend((os.path.join(dp_, f_), 0o444) for f_ in fn_ if os.path.join(dp_, f_) != junk)
            for p_, m_ in ro_paths:
                os.chmod(p_, m_)
        for qi, q in enumerate(case["queries"]):
            res.evaluations += 1
            if junk is not None and os.path.exists(junk):
                # the other process is still writing: modified "now" - by ITS clock, which may be ahead of this host's
                # (files on a shared file system; a clock stepped back): a modification time in the future is "new" too
                t_ = time.time() + case.get("junk_skew", 0)
                os.utime(junk, (t_, t_))
            r = readers[qi % len(readers)]
            a, b = q["a"], q["b"]
            inr = [k for k in keys_all if a <= k <= b]
            for e in (a, b):
                j = ((e * d) // n) // C
                if e in (M.boundary_index(j, n, d, C), M.boundary_index(j + 1, n, d, C)):
                    nt = True
            try:
                if q["q"] == "read":
                    check_read(res, fail, "read(%d,%d)" % (a, b), r.read(IT(a), IT(b)), model, inr)
                elif q["q"] == "single":
                    check_read(res, fail, "read(%d)" % a, r.read(IT(a)), model, [k for k in keys_all if k == a])
                elif q["q"] in ("cols", "colstr"):
                    check_read(res, fail, "read(%d,%d,columns=%r)" % (a, b, q["columns"]), r.read(IT(a), IT(b), columns=q["columns"]), model, inr, q["columns"])
                elif q["q"] == "ffill":
                    prev = [k for k in keys_all if k <= a]
                    exp = ([prev[-1]] if prev else []) + [k for k in keys_all if a < k <= b]
                    if prev:
                        T = M.exact_file_ts(prev[-1], n, d, C)
                        if any(k > prev[-1] and M.exact_file_ts(k, n, d, C) == T for k in keys_all):
                            nt = True
                    check_read(res, lambda s, dd: fail("ffill-" + s, dd), "read(%d,%d,method=%r)" % (a, b, q["method"]),
                               r.read(IT(a), IT(b), method=q["method"]), model, exp)
                elif q["q"] == "ffill1":
                    # one index, end_sample left at its default: the latest sample at or before it
                    prev = [k for k in keys_all if k <= a]
                    check_read(res, lambda s, dd: fail("ffill-" + s, dd), "read(%d,method=%r)" % (a, q["method"]),
                               r.read(IT(a), method=q["method"]), model, prev[-1:])
                elif q["q"] == "ffillcols":
                    prev = [k for k in keys_all if k <= a]
                    exp = prev[-1:] + [k for k in keys_all if a < k <= b]
                    check_read(res, lambda s, dd: fail("ffill-" + s, dd), "read(%d,%d,columns=%r,method=%r)" % (a, b, q["columns"], q["method"]),
                               r.read(IT(a), IT(b), columns=q["columns"], method=q["method"]), model, exp, q["columns"])
                elif q["q"] == "latest":
                    check_read(res, lambda s, dd: fail("latest-" + s, dd), "read_latest()", r.read_latest(), model, [keys_all[-1]])
                elif q["q"] == "bounds":
                    gb = tuple(int(x) for x in r.get_bounds())
                    for T in {M.exact_file_ts(keys_all[0], n, d, C), M.exact_file_ts(keys_all[-1], n, d, C)}:
                        ins = [k for k in keys_all if M.exact_file_ts(k, n, d, C) == T]
                        if len({len(str(k)) for k in ins}) > 1:
                            nt = True
                    if gb != (keys_all[0], keys_all[-1]):
                        fail("bounds", "get_bounds %r expected %r" % (gb, (keys_all[0], keys_all[-1])))
                elif q["q"] == "nocolumn":
                    # a column that no sample has: an error is fine, damage to the stored samples is not (the
                    # following queries read them back)
                    try:
                        r.read(a, b, columns="no_such_column")
                    except Exception:
                        pass
                elif q["q"] == "fields":
                    gf = readers[-1].get_fields()  # a reader created after the first write
                    if sorted(gf) != sorted(sp["name"] for sp in specs):
                        fail("fields", "get_fields %r expected %r" % (gf, sorted(sp["name"] for sp in specs)))
                elif q["q"] == "flat":
                    fd = r.read_flatdict(a, b)
                    if [int(x) for x in fd["index"]] != inr:
                        fail("flatdict-index", "read_flatdict(%d,%d) index %r expected %r" % (a, b, list(fd["index"])[:8], inr[:8]))
            except Exception as e:
                fail("query-exception:%s:%s" % (q["q"], type(e).__name__), "%r: %s" % (q, e))
        for p_, m_ in ro_paths:
            os.chmod(p_, 0o755 if m_ == 0o555 else 0o644)
        if junk is not None and not os.path.exists(junk):
            fail("reader-removed-file-being-written", "%s (created seconds ago by another process) was deleted by a read" % os.path.relpath(junk, md))
    res.nontrivial = nt
    kinds = {s["s"] for s in case["steps"]}
    for k in kinds:
        res.cls("step:" + k)
    return res


def shrink_candidates(case):
    qs = case["queries"]
    for i in range(len(qs) - 1, -1, -1):
        if len(qs) > 1:
            yield dict(case, queries=qs[:i] + qs[i + 1:])
    steps = case["steps"]
    for i in range(len(steps) - 1, -1, -1):
        if len(steps) > 1:
            yield dict(case, steps=steps[:i] + steps[i + 1:])
