"""C09 - concurrent reader isolation and monotone visibility (DESIGN.md section 4, C09)."""
from __future__ import annotations

import os
import subprocess
import time

import numpy as np
from hypothesis import strategies as st

from checks import c02
from vlib import build, fsx, rfharness, rfmodel, strategies as S
from vlib.campaign import Result

PID = "C09"
LEVEL = "exploration"
ENGINE = "fsx+pbt"
TECHNIQUE = "schedule exploration: (A) harness-owned schedule - the interposer blocks the writer before every file-system operation and long-lived + fresh readers run a pass at each point; (B) free-running writer process with generated pacing and a polling reader"
RULE = (
    "(A) the C02 set-up in pause mode with three readers: one created as soon as the channel exists (before the first "
    "data file), one created at a drawn point, one fresh per pass. At every point each reader does a pass "
    "(get_channels, get_bounds, whole-span read, get_continuous_blocks, two sub-ranges): no exception; the returned "
    "index->bytes map equals the model's samples of the files finalized so far; the map of pass i is a sub-map of pass "
    "i+1 for the same reader; after close it equals the full model. (B) the writer runs freely with Hypothesis-drawn "
    "sleeps between calls while a reader polls: every pass must be free of exceptions, a subset of the model, and a "
    "superset of the previous pass; the final pass equals the model. Non-trivial: a pass made while a tmp. file is open "
    "and >= 1 file is finalized (distinct_nontrivial counts such passes plus the schedules dominated by them)."
)
ASSUMPTIONS = c02.ASSUMPTIONS + ["schedules of (B) are decided by the OS: explored, not enumerated"]
FLOORS = {"nontrivial": 0.4}


def budget(tier):
    return {"examples": 10 if tier == "quick" else 40, "shards": 1 if tier == "quick" else 16,
            "examples2": 200 if tier == "quick" else 100}


# second stage: "what a reader has once been able to read stays readable and unchanged" across recording sessions: reads between
# and during later sessions of the same channel (files of earlier sessions never change, their samples keep their values)
SESSION_KEEP = ("finalized-file-changed", "finalized-file-disappeared", "union-read-wrong-value", "union-read-missing-sample", "union-read-exception")


def strategy2(tier):
    from checks import c11
    return c11.session_strategy(tier)


@st.composite
def _cases(draw, tier):
    cfg = draw(S.rf_configs(spf_cap=128, boundary_p=0.5))
    ops = draw(S.write_ops(cfg, max_calls=4, max_files=3, allow_blocks=not cfg["cont"]))
    mode = draw(st.sampled_from(["owned", "owned", "free"]))
    return {"cfg": cfg, "ops": ops, "mode": mode, "writer": draw(st.sampled_from(["c", "c", "c", "py"])) if mode == "owned" else "c",
            "join_at": draw(st.integers(0, 200)), "sleeps": [draw(st.sampled_from([0, 0, 200, 1000, 2000])) for _ in ops],
            "subs": [draw(st.integers(0, 1000)) for _ in range(4)]}


def strategy(tier):
    return _cases(tier)


def full_pass(cfg, m, reader, fail, where, subs):
    """One reader pass.  Returns index->bytes map (or None on exception)."""
    nb = rfmodel.sample_nbytes(cfg)
    sd = rfmodel.stored_dtype(cfg)
    mb = m.bounds()
    out = {}
    try:
        with rfharness.quiet_fds():
            chs = reader.get_channels()
            if chs != ["ch0"]:
                fail("channels", "%s: %r" % (where, chs))
            b = reader.get_bounds("ch0")
            a, e = max(0, mb[0] - 3), mb[1] + 3
            got = list(reader.read(a, e, "ch0").items())
            cb = reader.get_continuous_blocks(a, e, "ch0")
        if [(int(k), int(v)) for k, v in cb.items()] != [(int(k), len(v)) for k, v in got]:
            # the two calls are not atomic with respect to the writer in free-running mode; only compare when paused
            if where.startswith("before op") or where.startswith("after close"):
                fail("blocks-vs-read", "%s: %r vs %r" % (where, list(cb.items())[:4], [(int(k), len(v)) for k, v in got][:4]))
        for k, arr in got:
            raw = np.ascontiguousarray(arr).astype(sd, copy=False).tobytes()
            for i in range(arr.shape[0]):
                out[int(k) + i] = raw[i * nb:(i + 1) * nb]
        span = mb[1] - mb[0] + 1
        for j in range(0, len(subs), 2):
            x = mb[0] + subs[j] % span
            y = min(mb[1], x + subs[j + 1] % span)
            with rfharness.quiet_fds():
                sub = reader.read(x, y, "ch0")
            for k, arr in sub.items():
                raw = np.ascontiguousarray(arr).astype(sd, copy=False).tobytes()
                for i in range(arr.shape[0]):
                    idx = int(k) + i
                    if idx in out and out[idx] != raw[i * nb:(i + 1) * nb]:
                        fail("subrange-differs", "%s: sample %d differs between two reads of one pass" % (where, idx))
    except Exception as e:
        fail("reader-exception:%s" % type(e).__name__, "%s: %s" % (where, e))
        return None
    return out


def model_map(cfg, m, finals=None):
    """index->bytes of the model, restricted to the given finalized files (None = everything)."""
    nb = rfmodel.sample_nbytes(cfg)
    out = {}
    if finals is None:
        mb = m.bounds()
        blocks = m.expected_blocks(mb[0], mb[1]) if mb else []
    else:
        blocks = c02.expected_for_files(cfg, m, finals)
    fills = set()
    for s, buf, fill in blocks:
        for i in range(len(buf) // nb):
            out[s + i] = buf[i * nb:(i + 1) * nb]
        for lo, hi in fill or []:
            fills.update(range(lo, hi + 1))
    return out, fills


def compare_maps(cfg, got, exp, fills, fail, where, exact=True):
    for k, v in got.items():
        if k not in exp:
            fail("sample-not-written", "%s: index %d returned but not in the model of the visible files" % (where, k))
            return
        if k in fills:
            ok = all(rfmodel.fill_element_ok(cfg, v[o:o + cfg["size"]]) for o in range(0, len(v), cfg["size"]))
            if not ok:
                fail("wrong-value", "%s: fill slot %d" % (where, k))
                return
        elif v != exp[k]:
            fail("wrong-value", "%s: index %d differs from what was written" % (where, k))
            return
    if exact:
        missing = [k for k in exp if k not in got]
        if missing:
            fail("sample-missing", "%s: %d samples of finalized files not returned, first %d" % (where, len(missing), min(missing)))


def run_owned(case, res, fail):
    cfg = case["cfg"]
    with rfharness.scratch("c09") as base:
        top = os.path.join(base, "data")
        ch = os.path.join(top, "ch0")
        os.makedirs(ch)
        m = rfmodel.Model(cfg)
        for op in case["ops"]:
            m.apply(op)
        drf = rfharness.drf()
        st_ = {"early": None, "joined": None, "prev": {}, "points": 0, "nt": 0}

        def on_point(k, name, what):
            st_["points"] += 1
            where = "before op %d (%s)" % (k, name)
            finals, tmps = c02.final_files(ch)
            if finals and tmps:
                st_["nt"] += 1
            props = os.path.exists(os.path.join(ch, "drf_properties.h5"))
            exp, fills = model_map(cfg, m, finals)
            readers = []
            if props:
                try:
                    with rfharness.quiet_fds():
                        if st_["early"] is None:
                            st_["early"] = drf.DigitalRFReader(top)
                        if st_["joined"] is None and st_["points"] >= case["join_at"] % 97 + 1:
                            st_["joined"] = drf.DigitalRFReader(top)
                        fresh = drf.DigitalRFReader(top)
                except Exception as e:
                    fail("reader-open-failed:%s" % type(e).__name__, "%s: %s" % (where, e))
                    return "c"
                readers = [("early", st_["early"]), ("fresh", fresh)]
                if st_["joined"] is not None:
                    readers.append(("joined", st_["joined"]))
            for nm, r in readers:
                got = full_pass(cfg, m, r, lambda s, d: fail(s + ":" + nm, d), where, case["subs"])
                if got is None:
                    continue
                compare_maps(cfg, got, exp, fills, lambda s, d: fail(s + ":" + nm, d), where)
                prev = st_["prev"].get(nm)
                if prev is not None and nm != "fresh":
                    lost = [i for i in prev if i not in got or (got[i] != prev[i] and i not in fills)]
                    if lost:
                        fail("visibility-not-monotone:" + nm, "%s: %d samples readable earlier are gone or changed, first %d" % (where, len(lost), min(lost)))
                st_["prev"][nm] = got
            if props:
                fresh.close()
            return "c"

        rc, ev, npoints = fsx.run_paused(case["writer"], cfg, case["ops"], top, ch, base, on_point)
        if rc != 0:
            fail("writer-failed-under-pause", "rc=%s" % rc)
        exp, fills = model_map(cfg, m, None)
        for nm in ("early", "joined"):
            r = st_[nm]
            if r is None:
                continue
            got = full_pass(cfg, m, r, lambda s, d: fail(s + ":" + nm, d), "after close", case["subs"])
            if got is not None:
                compare_maps(cfg, got, exp, fills, lambda s, d: fail(s + ":" + nm, d), "after close (%s reader)" % nm)
            r.close()
        res.evaluations = st_["points"] * 3
        res.nontrivial = st_["nt"] * 10 >= st_["points"] * 3
        res.nt_units = st_["nt"]


def run_free(case, res, fail):
    cfg = case["cfg"]
    ovl = build.ensure(want=("driver",))
    with rfharness.scratch("c09f") as base:
        top = os.path.join(base, "data")
        ch = os.path.join(top, "ch0")
        os.makedirs(ch)
        m = rfmodel.Model(cfg)
        for op in case["ops"]:
            m.apply(op)
        lines = rfharness.script_lines(cfg, case["ops"], ch)
        script = [lines[0], "sleep 3000"]
        for ln, sl in zip(lines[1:-1], case["sleeps"]):
            script.append(ln)
            if sl:
                script.append("sleep %d" % sl)
        script.append(lines[-1])
        sp = os.path.join(base, "script.txt")
        with open(sp, "w") as f:
            f.write("\n".join(script) + "\n")
        p = subprocess.Popen([os.path.join(ovl, "bin", "drf_driver"), sp, os.path.join(base, "log.txt")],
                             stdout=subprocess.DEVNULL, stderr=subprocess.DEVNULL)
        drf = rfharness.drf()
        exp, fills = model_map(cfg, m, None)
        reader = None
        prev = None
        passes = nt = 0
        t_end = time.time() + 30
        try:
            while time.time() < t_end:
                done = p.poll() is not None
                if reader is None:
                    if os.path.exists(os.path.join(ch, "drf_properties.h5")):
                        try:
                            with rfharness.quiet_fds():
                                reader = drf.DigitalRFReader(top)
                        except Exception as e:
                            fail("reader-open-failed:%s" % type(e).__name__, "free-running: %s" % e)
                            break
                if reader is not None:
                    finals, tmps = c02.final_files(ch)
                    got = full_pass(cfg, m, reader, fail, "free-running pass %d" % passes, case["subs"])
                    passes += 1
                    if finals and tmps:
                        nt += 1
                    if got is not None:
                        compare_maps(cfg, got, exp, fills, fail, "free-running pass %d" % passes, exact=done)
                        if prev is not None:
                            lost = [i for i in prev if i not in got or (got[i] != prev[i] and i not in fills)]
                            if lost:
                                fail("visibility-not-monotone", "free-running pass %d: %d samples gone or changed" % (passes, len(lost)))
                        prev = got
                if done:
                    break
        finally:
            if p.poll() is None:
                p.kill()
            p.wait()
            if reader is not None:
                reader.close()
        res.evaluations = max(1, passes)
        res.nontrivial = nt > 0
        res.nt_units = nt
        res.cls("free-running")


def run_case(case):
    if case.get("kind") == "sessions":
        from checks import c11
        return c11.run_sessions(case, SESSION_KEEP)
    res = Result()
    seen = set()

    def fail(sig, detail):
        if sig not in seen:
            seen.add(sig)
            res.fail(sig, detail)

    if case["mode"] == "owned":
        run_owned(case, res, fail)
        res.cls("owned-schedule")
    else:
        run_free(case, res, fail)
    return res


shrink_candidates = c02.shrink_candidates


def _shrink(case):
    if case.get("kind") == "sessions":
        from checks import c11
        yield from c11.session_shrink(case)
        return
    for c in c02.shrink_candidates(dict(case, kills=[0])):
        c = dict(c)
        c.pop("kills", None)
        if len(c["sleeps"]) != len(c["ops"]):
            c["sleeps"] = (c["sleeps"] + [0] * len(c["ops"]))[:len(c["ops"])]
        yield c


shrink_candidates = _shrink
