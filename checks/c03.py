"""C03 - exact sample-index <-> time conversion (DESIGN.md section 4, C03)."""
from __future__ import annotations

import ctypes
import datetime
import multiprocessing
import os
import shutil
import subprocess
import tempfile

from hypothesis import strategies as st

from vlib import build
from vlib.campaign import VERIF, Result

PID = "C03"
LEVEL = "exploration"
ENGINE = "pbt+enum+cfuzz"
TECHNIQUE = "exhaustive small-scope enumeration + residue-directed Hypothesis sampling + libFuzzer/UBSan target, all against big-integer / __int128 oracles"
RULE = (
    "Three generators over (index, n, d) and (s, ps, n, d): exhaustive enumeration for n,d <= N (every index in "
    "[0,3nd] plus magnitude lattice), residue-directed Hypothesis draws over the full stated domain, and a "
    "libFuzzer target decoding bytes into the tuple. Oracle: Python big-int floor/ceil (and __int128 in the "
    "target); calendar fields vs datetime; monotonicity on k,k+1; ceil(floor(k))==k when d*10^12>=n. "
    "Non-trivial: (k*d) % n != 0, or index >= 2^40, or n >= 2^24; enumerated tuples are distinct by construction, "
    "Hypothesis tuples are counted by SHA-1."
    ' Directed: 6-12 threads of one interpreter call digital_rf.get_unix_time concurrently on indices whose calenda'
    'r fields all differ (150k calls each in the quick tier); every result must be exact.'
)
RULE += ' Since rounds 7-8: each conversion may be preceded by a failing conversion, a failing / unrelated libc calendar call, or a conversion at a rate sharing the numerator or denominator.'
ASSUMPTIONS = [
    "private helpers digital_rf_get_timestamp_floor / digital_rf_get_sample_ceil are reached through ctypes on a shared object built from /repo/c/lib/rf_write_hdf5.c",
    "libFuzzer executions are counted from -print_final_stats; a campaign is pinned only approximately by -seed",
]
FLOORS = {"nontrivial": 0.5}
YEAR9999 = 253402300800
PS = 10 ** 12

_lib = None


def lib():
    global _lib
    if _lib is None:
        ovl = build.ensure(want=("timelib",))
        L = ctypes.CDLL(os.path.join(ovl, "bin", "libdrf.so"))
        u64 = ctypes.c_uint64
        pu64 = ctypes.POINTER(u64)
        pint = ctypes.POINTER(ctypes.c_int)
        L.digital_rf_get_timestamp_floor.argtypes = [u64, u64, u64, pu64, pu64]
        L.digital_rf_get_sample_ceil.argtypes = [u64, u64, u64, u64, pu64]
        L.digital_rf_get_unix_time_rational.argtypes = [u64, u64, u64, pint, pint, pint, pint, pint, pint, pu64]
        _lib = L
    return _lib


def c_floor(k, n, d):
    s = ctypes.c_uint64()
    p = ctypes.c_uint64()
    rc = lib().digital_rf_get_timestamp_floor(k, n, d, ctypes.byref(s), ctypes.byref(p))
    return rc, s.value, p.value


def c_ceil(s, ps, n, d):
    o = ctypes.c_uint64()
    rc = lib().digital_rf_get_sample_ceil(s, ps, n, d, ctypes.byref(o))
    return rc, o.value


def c_rational(k, n, d):
    v = [ctypes.c_int() for _ in range(6)]
    p = ctypes.c_uint64()
    rc = lib().digital_rf_get_unix_time_rational(k, n, d, *[ctypes.byref(x) for x in v], ctypes.byref(p))
    return rc, tuple(x.value for x in v), p.value


EPOCH = datetime.datetime(1970, 1, 1)


_LIBC = []


def _poison(how, k=0, n=1, d=1):
    import time
    import digital_rf
    try:
        if how == "convert":
            digital_rf.get_unix_time(10 ** 17, 1, 1)
        elif how == "gmtime":
            time.gmtime(10 ** 17)
        elif how == "libc-calendar":
            # the same index converted just before, then the application itself uses the C library's calendar functions
            # (their result buffer is shared by the whole process) for an unrelated time
            digital_rf.get_unix_time(k, n, d)
            if not _LIBC:
                _LIBC.append(ctypes.CDLL(None))
                _LIBC[0].gmtime.restype = ctypes.c_void_p
                _LIBC[0].localtime.restype = ctypes.c_void_p
            t = ctypes.c_long(946080000 + (k % 1000) * 86400 * 37)
            _LIBC[0].gmtime(ctypes.byref(t))
            _LIBC[0].localtime(ctypes.byref(t))
        elif isinstance(how, list):
            # a conversion at a RELATED rate just before (same numerator or same denominator, other partner)
            digital_rf.get_unix_time(how[0], how[1], how[2])
    except BaseException:
        pass


def check_tuple(k, n, d, s, ps, res, python_api=True, before=None):
    """All oracles for one tuple; returns number of evaluations."""
    es, rem = divmod(k * d, n)
    eps = rem * PS // n
    rc, gs, gp = c_floor(k, n, d)
    if rc != 0 or gs != es or gp != eps:
        res.fail("floor", "k=%d n=%d d=%d got (%d,%d) expected (%d,%d)" % (k, n, d, gs, gp, es, eps))
    rc, fields, p2 = c_rational(k, n, d)
    dt = EPOCH + datetime.timedelta(seconds=es)
    if rc != 0 or fields != (dt.year, dt.month, dt.day, dt.hour, dt.minute, dt.second) or p2 != eps:
        res.fail("rational", "k=%d n=%d d=%d got %r ps %d expected %s ps %d" % (k, n, d, fields, p2, dt, eps))
    if python_api:
        import digital_rf

        try:
            if before:
                _poison(before, k, n, d)
            pdt, pps = digital_rf.get_unix_time(k, n, d)
            if pdt != dt.replace(microsecond=eps // 10 ** 6) or pps != eps:
                res.fail("python-get_unix_time", "k=%d n=%d d=%d got (%s,%d) expected (%s,%d)" % (k, n, d, pdt, pps, dt, eps))
        except Exception as e:
            res.fail("python-get_unix_time-exc", "k=%d n=%d d=%d %s: %s" % (k, n, d, type(e).__name__, e))
    # monotone in the index
    rc, s1, p1 = c_floor(k + 1, n, d)
    if (s1, p1) < (gs, gp):
        res.fail("monotone", "k=%d n=%d d=%d (%d,%d) then (%d,%d)" % (k, n, d, gs, gp, s1, p1))
    # round trip when one sample period is at least one picosecond
    if d * PS >= n:
        rc, back = c_ceil(es, eps, n, d)
        if back != k:
            res.fail("roundtrip", "k=%d n=%d d=%d ceil(floor)=%d" % (k, n, d, back))
    # inverse on an arbitrary timestamp
    ec = -((-(s * PS + ps) * n) // (d * PS))
    if ec < 1 << 64:
        rc, gc = c_ceil(s, ps, n, d)
        if rc != 0 or gc != ec:
            res.fail("ceil", "s=%d ps=%d n=%d d=%d got %d expected %d" % (s, ps, n, d, gc, ec))
    return 1


def nontrivial(k, n, d):
    return (k * d) % n != 0 or k >= 1 << 40 or n >= 1 << 24


# ------------------------------------------------------------- hypothesis tier
BIG = [2 ** 32 - 1, 2 ** 32 - 5, 2 ** 31, 2 ** 24, 10 ** 9, 10 ** 9 - 7, 999999937, 4294967291, 65537, 1000003]


@st.composite
def _cases(draw):
    n = draw(st.one_of(st.integers(1, 64), st.integers(1, 2 ** 32 - 1), st.sampled_from(BIG),
                       st.sampled_from([1, 10, 100, 1000, 44100, 10 ** 6, 10 ** 8, 30000000, 200])))
    d = draw(st.one_of(st.integers(1, 64), st.integers(1, 10 ** 9), st.sampled_from([1, 3, 7, 1001, 10 ** 9, 999999937])))
    if n * d >= 1 << 64:
        d = max(1, ((1 << 64) - 1) // n)
        d = min(d, 10 ** 9)
    lim = min((1 << 63) - 1, YEAR9999 * n // d)
    lim = max(lim, 1)
    mode = draw(st.integers(0, 7))
    if mode >= 6:
        # picosecond part within c/n of an integer: rem*10^12 = -c (mod n), solved with modular inverses
        import math
        n = draw(st.sampled_from(BIG + [2 ** 32 - 1, 2 ** 31 - 1, 2 ** 30 + 3, 2 ** 27 + 29, 123456789, 3999999979]))
        while math.gcd(n, 10) != 1:
            n -= 1
        d = draw(st.sampled_from([1, 1, 3, 7, 1001, 999999937]))
        while math.gcd(d, n) != 1:
            d += 1
        if n * d >= 1 << 64:
            d = 1
        lim = max(1, min((1 << 63) - 1, YEAR9999 * n // d))
        c = draw(st.sampled_from([0, 1, 1, 2, 3, 5, 17, 100, 1000, -1, -2, -7]))
        rem = (-c * pow(PS % n, -1, n)) % n
        k = (rem * pow(d, -1, n)) % n + draw(st.integers(0, max(0, (lim - 1) // n - 1))) * n
        k = min(k, lim - 1)
    elif mode == 0:
        k = draw(st.integers(0, lim - 1))
    elif mode == 1:
        q = draw(st.integers(0, max(0, (lim - 1) // n)))
        r = draw(st.sampled_from([0, 1, 2, n - 1, n - 2, n // 2, n // 3]))
        k = min(lim - 1, q * n + max(0, r))
    elif mode == 2:
        sec = draw(st.integers(0, YEAR9999 - 1))
        k = min(lim - 1, max(0, -((-sec * n) // d) + draw(st.integers(-2, 2))))
    elif mode == 3:
        k = min(lim - 1, draw(st.sampled_from([2 ** e for e in range(0, 63)] + [10 ** e for e in range(0, 19)])) + draw(st.integers(-1, 1)))
        k = max(0, k)
    elif mode == 4:
        k = max(0, lim - 1 - draw(st.integers(0, 1000)))
    else:
        k = draw(st.integers(0, min(lim - 1, 3 * n * d)))
    s = draw(st.one_of(st.integers(0, YEAR9999 - 1), st.integers(0, 10)))
    pm = draw(st.integers(0, 5))
    if pm == 0:
        ps = draw(st.integers(0, PS - 1))
    elif pm == 1:
        ps = draw(st.sampled_from([0, PS - 1, 1, 999, 1000, 1001, 10 ** 9, 10 ** 9 - 1, 10 ** 9 + 1, 10 ** 6, 5 * 10 ** 11]))
    elif pm == 2:
        ps = min(PS - 1, draw(st.integers(0, 999)) * 10 ** 9 + draw(st.sampled_from([0, 1, 999999999])))
    elif pm == 3:
        # exactly (or +-1 ps around) a sample instant: t = j*d/n
        j = draw(st.integers(0, 10 ** 6))
        tps = j * d * PS // n + draw(st.integers(-1, 1))
        tps = max(0, tps)
        s, ps = min(YEAR9999 - 1, tps // PS), tps % PS
    else:
        ps = draw(st.integers(0, 999)) * 10 ** 9
    # what this thread did just before the conversion: nothing / a conversion of an index whose time no calendar can express
    # (it fails) / a failing calendar call of the C library through Python itself.  A pure function owes the same result
    before = draw(st.sampled_from([None, None, None, "convert", "gmtime", "libc-calendar", "rate", "rate"]))
    if before == "rate":
        # (n, d') or (n', d) with the partner a multiple / a divisor-sharing neighbour, kept inside the accepted domain
        m_ = draw(st.sampled_from([2, 3, 4, 6, 7, 10, 64, 1001]))
        if draw(st.booleans()):
            n2, d2 = n, max(1, min(10 ** 9, d * m_ if draw(st.booleans()) else max(1, d // m_)))
        else:
            n2, d2 = max(1, min(2 ** 32 - 1, n * m_ if draw(st.booleans()) else max(1, n // m_))), d
        if n2 * d2 >= 1 << 64:
            n2, d2 = n, d
        before = [min(k, max(0, min((1 << 63) - 1, YEAR9999 * n2 // d2) - 1)), n2, d2]
    return {"k": k, "n": n, "d": d, "s": s, "ps": ps, "before": before}


def strategy(tier):
    return _cases()


def budget(tier):
    return {"examples": 12000 if tier == "quick" else 20000, "shards": 1 if tier == "quick" else 16}


def directed_cases(tier):
    """Concurrent callers of the Python conversion function (threads of one interpreter), each converting its own indices
    whose calendar fields all differ: every result must still be exact."""
    tuples = [[139440783000, 100, 1], [2 ** 62 // 977, 4294967291, 977], [1700000000 * 30000 // 1001 + 12345, 30000, 1001],
              [253402300799 * 7, 7, 1], [86399 * 200 // 3 + 1, 200, 3], [3600 * 1000000 * 13 + 999999, 1000000, 1],
              [946684800 * 48000 + 47999, 48000, 1], [1, 3, 2 ** 20]]
    out = [{"threads": 6, "tuples": tuples, "iters": 150000 if tier == "quick" else 600000}]
    if tier != "quick":
        out.append({"threads": 12, "tuples": tuples[::-1], "iters": 300000})
    # ... while another thread of the interpreter RECORDS (a writer rolling over files every millisecond uses the same
    # calendar code for its directory names)
    out.append({"threads": 4, "tuples": tuples, "iters": 60000 if tier == "quick" else 300000, "writer": True,
                "writes": 2500 if tier == "quick" else 10000})
    # rates whose numerator needs more than 32 bits (5, 8, 10 GS/s ...): the library's arithmetic is exact up to 10^10
    out.append({"bignum": [1 << 32, (1 << 32) + 1, 5 * 10 ** 9, 8 * 10 ** 9, 10 ** 10]})
    # the calendar: every day from 1970 to 2500 and the turn of every later century up to 9999, at two rates
    out.append({"calendar": [0, (2500 - 1970) * 366]})
    return out


def _run_bignum(case, res):
    n_ev = 0
    for n in case["bignum"]:
        for d in (1, 3, 1001):
            for s_ in (0, 1, 1500000000, 1700000000):
                for ps in (0, 1, 999, 1000, PS - 1, 333333333333, 500000000000, 999999999000):
                    ec = -((-(s_ * PS + ps) * n) // (d * PS))
                    if ec >= 1 << 64 or s_ * n >= 1 << 64:
                        continue
                    rc, gc = c_ceil(s_, ps, n, d)
                    n_ev += 1
                    if rc != 0 or gc != ec:
                        res.fail("ceil", "s=%d ps=%d n=%d d=%d got %d expected %d" % (s_, ps, n, d, gc, ec))
            for k in (1, n - 1, n, n + 1, 12345678901234, (1 << 62) // n * n + 5, (17 * 10 ** 18) // d, 1700000000 * n // d + 7):
                if k * d >= 1 << 64:
                    continue
                es, rem = divmod(k * d, n)
                eps = rem * PS // n
                rc, gs, gp = c_floor(k, n, d)
                n_ev += 1
                if rc != 0 or (gs, gp) != (es, eps):
                    res.fail("floor", "k=%d n=%d d=%d got (%d,%d) expected (%d,%d)" % (k, n, d, gs, gp, es, eps))
                if d * PS >= n:
                    rc, back = c_ceil(es, eps, n, d)
                    if back != k:
                        res.fail("roundtrip", "k=%d n=%d d=%d ceil(floor)=%d" % (k, n, d, back))
    res.evaluations = n_ev
    res.nontrivial = True
    res.cls("numerator-above-2^32")


def _run_calendar(case, res):
    lo, hi = case["calendar"]
    days = list(range(lo, hi))
    for y in range(2500, 10000, 100):
        d0 = (datetime.datetime(y, 1, 1) - EPOCH).days
        days += list(range(d0 + 55, d0 + 62)) + [d0 - 1, d0, d0 + 364, d0 + 365]
    days = [x for x in days if x * 86400 + 86399 < YEAR9999]
    n_ev = 0
    for (n, d) in ((1, 1), (200, 3)):
        for day in days:
            for sec in (day * 86400, day * 86400 + 86399):
                k = -((-sec * n) // d)
                es = (k * d) // n
                rc, fields, _p = c_rational(k, n, d)
                dt = EPOCH + datetime.timedelta(seconds=es)
                n_ev += 1
                if rc != 0 or fields != (dt.year, dt.month, dt.day, dt.hour, dt.minute, dt.second):
                    res.fail("rational", "k=%d n=%d d=%d got %r expected %s (calendar sweep)" % (k, n, d, fields, dt))
                    res.evaluations = n_ev
                    return
    import digital_rf
    for day in days[::7]:
        k = day * 86400 + 43200
        pdt, _pps = digital_rf.get_unix_time(k, 1, 1)
        if pdt != EPOCH + datetime.timedelta(seconds=k):
            res.fail("python-get_unix_time", "k=%d n=1 d=1 got %s expected %s (calendar sweep)" % (k, pdt, EPOCH + datetime.timedelta(seconds=k)))
            break
    res.evaluations = n_ev
    res.nontrivial = True
    res.cls("calendar-sweep")


def _run_threads(case, res):
    import threading

    import digital_rf

    exp = []
    for k, n, d in case["tuples"]:
        es, rem = divmod(k * d, n)
        eps = rem * PS // n
        exp.append(((EPOCH + datetime.timedelta(seconds=es)).replace(microsecond=eps // 10 ** 6), eps))
    bad = []
    counts = {}
    start = threading.Barrier(case["threads"])
    stop = threading.Event()
    wthread = None
    scratch = None
    if case.get("writer"):
        import numpy as np
        from vlib import rfharness
        scratch = rfharness.scratch_dir("c03w")
        os.makedirs(os.path.join(scratch, "ch0"))

        def record():
            with rfharness.quiet_fds():
                w = digital_rf.DigitalRFWriter(os.path.join(scratch, "ch0"), np.int16, 1, 1, 1700000000 * 1000, 1000, 1, uuid_str="c03",
                                               is_complex=False, num_subchannels=1, is_continuous=False, marching_periods=False)
            arr = np.zeros(3, dtype=np.int16)
            k = 0
            try:
                while not stop.is_set() and k < 5 * case.get("writes", 4000):
                    w.rf_write(arr, k)  # three samples, then two skipped: a new 1 ms file every call
                    k += 5
            finally:
                stop.set()  # the converting threads run for as long as the recording lasts
                w.close()

        wthread = threading.Thread(target=record)
        wthread.start()

    def work(t):
        tl = case["tuples"]
        start.wait()
        i = -1
        while True:
            i += 1
            if (i >= case["iters"] and wthread is None) or (wthread is not None and stop.is_set()) or i >= 50 * case["iters"]:
                counts[t] = i
                return
            j = (i + t) % len(tl)
            got = digital_rf.get_unix_time(*tl[j])
            if got != exp[j]:
                bad.append("thread %d call %d: k=%d n=%d d=%d got (%s,%d) expected (%s,%d)" % ((t, i) + tuple(tl[j]) + (got[0], got[1]) + exp[j]))
                return

    ths = [threading.Thread(target=work, args=(t,)) for t in range(case["threads"])]
    for t in ths:
        t.start()
    for t in ths:
        t.join()
    if wthread is not None:
        stop.set()
        wthread.join()
        shutil.rmtree(scratch, ignore_errors=True)
        res.cls("concurrent-recording")
    res.evaluations = sum(counts.values()) if counts else case["threads"] * case["iters"]
    res.nontrivial = True
    res.cls("concurrent-callers")
    if bad:
        res.fail("python-get_unix_time-concurrent", bad[0])


def run_case(case):
    res = Result()
    if "fuzz_hex" in case:
        _replay_fuzz(case, res)
        return res
    if "threads" in case:
        _run_threads(case, res)
        return res
    if "calendar" in case:
        _run_calendar(case, res)
        return res
    if "bignum" in case:
        _run_bignum(case, res)
        return res
    k, n, d = case["k"], case["n"], case["d"]
    check_tuple(k, n, d, case["s"], case["ps"], res, before=case.get("before"))
    if case.get("before"):
        res.cls("preceded-by:" + (case["before"] if isinstance(case["before"], str) else "conversion-at-related-rate"))
    res.nontrivial = nontrivial(k, n, d)
    if k >= 1 << 40:
        res.cls("bigindex")
    if n >= 1 << 24:
        res.cls("bign")
    if (k * d) % n:
        res.cls("inexact-second")
    if d * PS < n:
        res.cls("sub-picosecond-period")
    return res


def shrink_candidates(case):
    if "fuzz_hex" in case or "threads" in case or "calendar" in case or "bignum" in case:
        return
    for key in ("k", "s", "ps", "n", "d"):
        v = case[key]
        lo = 1 if key in ("n", "d") else 0
        for nv in (lo, v // 2, v - 1, v // 10):
            if lo <= nv < v:
                yield dict(case, **{key: nv})


# ------------------------------------------------------------- enumeration tier
def _enum_row(args):
    n, N = args
    res = Result()
    cnt = nt = 0
    for d in range(1, N + 1):
        top = 3 * n * d
        ks = list(range(0, top + 1))
        for q in [2 ** e for e in (20, 32, 40, 50, 58)] + [10 ** e for e in (6, 9, 12, 15)]:
            for r in (0, 1, n - 1):
                k = q * n + r
                if k * d // n < YEAR9999 and k < 1 << 63:
                    ks.append(k)
        step = d * PS // n  # picoseconds per sample (floor)
        for k in ks:
            s = (k * d // n) % 4
            ps = (k * step) % PS
            check_tuple(k, n, d, s, ps, res, python_api=False)
            # timestamps one picosecond either side of the sample instant
            tps = (k * d * PS) // n
            for dl in (-1, 1):
                t2 = tps + dl
                if t2 >= 0:
                    ec = -((-t2 * n) // (d * PS))
                    rc, gc = c_ceil(t2 // PS, t2 % PS, n, d)
                    if gc != ec:
                        res.fail("ceil", "s=%d ps=%d n=%d d=%d got %d expected %d" % (t2 // PS, t2 % PS, n, d, gc, ec))
            cnt += 1
            if nontrivial(k, n, d):
                nt += 1
            if len(res.failures) > 5:
                return cnt, nt, res.failures[:5]
    return cnt, nt, res.failures[:5]


def extra(tier, seed, camp):
    N = 32 if tier == "quick" else 100
    lib()  # build before forking
    ctx = multiprocessing.get_context("fork")
    with ctx.Pool(16) as pool:
        outs = pool.map(_enum_row, [(n, N) for n in range(1, N + 1)], chunksize=1)
    total = sum(o[0] for o in outs)
    camp.evaluations += total
    camp.cases += total
    camp.nontrivial_extra += sum(o[1] for o in outs)
    camp.extra_cov["enum_tuples"] = total
    camp.extra_cov["enum_scope"] = "n,d in [1,%d], k in [0,3nd] + magnitude lattice; exhaustive" % N
    for o in outs:
        for sig, detail in o[2]:
            # turn the detail into a replayable case
            case = _case_from_detail(detail)
            r = Result()
            r.fail("enum:" + sig, detail)
            camp.record(case, r)
    _fuzz(tier, seed, camp)


def _case_from_detail(detail):
    import re

    kv = dict((m.group(1), int(m.group(2))) for m in re.finditer(r"\b(k|n|d|s|ps)=(\d+)", detail))
    return {"k": kv.get("k", 0), "n": kv.get("n", 1), "d": kv.get("d", 1), "s": kv.get("s", 0), "ps": kv.get("ps", 0)}


# ------------------------------------------------------------- fuzz tier
def _fuzz(tier, seed, camp, mode="all", tag="fuzz"):
    ovl = build.ensure(want=("fuzz",))
    exe = os.path.join(ovl, "bin", "fuzz_time")
    work = tempfile.mkdtemp(prefix="fz-", dir="/dev/shm" if os.path.isdir("/dev/shm") else None)
    total = 0
    try:
        jobs = []
        saved = os.path.join(VERIF, "corpus", "fuzz_time")
        if tier == "quick":
            plan = [("empty", 400000, 0)]
        else:
            plan = [("empty%d" % i, 0, 90) for i in range(8)] + [("seeded%d" % i, 0, 90) for i in range(8)]
        for i, (name, runs, secs) in enumerate(plan):
            cdir = os.path.join(work, name)
            os.makedirs(cdir)
            if name.startswith("seeded") and os.path.isdir(saved):
                for fn in os.listdir(saved):
                    shutil.copy(os.path.join(saved, fn), cdir)
            art = os.path.join(work, name + ".crash-")
            cmd = [exe, "-seed=%d" % (seed * 100 + i + 1), "-max_len=48", "-len_control=0", "-print_final_stats=1",
                   "-use_value_profile=1", "-artifact_prefix=" + art, cdir]
            cmd.append("-runs=%d" % runs if runs else "-max_total_time=%d" % secs)
            env = dict(os.environ, FUZZ_TIME_MODE=mode)
            jobs.append((name, art, subprocess.Popen(cmd, env=env, stdout=subprocess.DEVNULL, stderr=subprocess.PIPE, text=True)))
        # replay of the saved corpus (regression tier)
        if os.path.isdir(saved) and os.listdir(saved):
            p = subprocess.run([exe, "-runs=0", saved], env=dict(os.environ, FUZZ_TIME_MODE=mode),
                               stdout=subprocess.DEVNULL, stderr=subprocess.PIPE, text=True)
            if p.returncode != 0:
                _fuzz_failure(camp, p.stderr, None, tag)
            total += len(os.listdir(saved))
        for name, art, p in jobs:
            _, err = p.communicate()
            for ln in err.splitlines():
                if ln.startswith("stat::number_of_executed_units:"):
                    total += int(ln.split(":")[-1])
            if p.returncode != 0:
                crash = None
                for fn in os.listdir(work):
                    if fn.startswith(name + ".crash-"):
                        crash = os.path.join(work, fn)
                _fuzz_failure(camp, err, crash, tag)
    finally:
        shutil.rmtree(work, ignore_errors=True)
    camp.evaluations += total
    camp.extra_cov[tag + "_execs"] = total


def _fuzz_failure(camp, err, crash, tag):
    what = "crash"
    tup = ""
    for ln in err.splitlines():
        if ln.startswith("MISMATCH"):
            what = ln.split()[1]
            tup = ln
        if "runtime error" in ln:
            what = "ubsan"
            tup = ln
    hexs = ""
    if crash and os.path.exists(crash):
        with open(crash, "rb") as f:
            hexs = f.read().hex()
    r = Result()
    r.fail("%s:%s" % (tag, what), tup or err[-500:])
    camp.record({"fuzz_hex": hexs, "mode": "all", "note": tup}, r)


def _replay_fuzz(case, res):
    ovl = build.ensure(want=("fuzz",))
    exe = os.path.join(ovl, "bin", "fuzz_time")
    with tempfile.TemporaryDirectory(dir="/dev/shm" if os.path.isdir("/dev/shm") else None) as td:
        p = os.path.join(td, "input")
        with open(p, "wb") as f:
            f.write(bytes.fromhex(case["fuzz_hex"]))
        r = subprocess.run([exe, p], env=dict(os.environ, FUZZ_TIME_MODE=case.get("mode", "all")),
                           stdout=subprocess.DEVNULL, stderr=subprocess.PIPE, text=True)
        if r.returncode != 0:
            what = "crash"
            for ln in r.stderr.splitlines():
                if ln.startswith("MISMATCH"):
                    what = ln.split()[1]
            res.fail("fuzz:" + what, r.stderr[-600:])
