"""C17 - mirror fidelity, staged publication and no loss in move mode (DESIGN.md section 4, C17)."""
from __future__ import annotations

import contextlib
import hashlib
import io
import os
import shutil

import numpy as np
from hypothesis import strategies as st

from vlib import rfharness, rfmodel
from vlib.campaign import VERIF, Result

PID = "C17"
LEVEL = "exploration"
TECHNIQUE = "property-based testing: live recordings made with the real writers, generated event histories (duplicated / reordered / stale / dropped / replayed) fed to the mirror's handlers, with os/shutil primitives wrapped so an invariant is evaluated at every file-system operation of the mirror"
RULE = (
    "1-2 channels are recorded live into the source with the real writers (RF files staged as tmp. then renamed, "
    "Digital Metadata appended between events); the canonical events (properties created, tmp created/modified, "
    "moved tmp->final, metadata created/modified) are perturbed by Hypothesis: duplicates, stale modified events, "
    "events for vanished files, dropped events, replay of the whole history, start-up replay (the mirror's own start() with the observer thread replaced by a no-op; every file its listing selects - the metadata file in force at the start time included - must reach the destination) (the listing loop of "
    "start() with match_time=False); method in {copy, move, link}, destination on the same or another file system, "
    "optional kind selection / time window, optionally one injected EIO on the n-th publishing rename. os.rename/link/remove/unlink/rmdir/makedirs and shutil.copyfile (split in "
    "two halves) are wrapped: at every such operation (i) any file under a final destination name equals a version its "
    "source had, (ii) in move mode every finalized RF file has an intact copy in source or destination (tmp. "
    "included), (iii) a metadata file is removed from the source only when an identical copy is in the destination. "
    "End state: every processed file of the selected kinds/window is in the destination byte-identical, nothing "
    "else (no tmp. leftovers), readers on the destination agree with the source model, newest metadata file and "
    "properties remain in the source. Non-trivial: a duplicate or stale event, or move mode with >= 3 RF files."
    ' Further dimensions: naive windows, sub-second file cadences with fractional window edges, construction through the `drf mirror` command line, link flag, verbose reports, a consumer downstream that prunes destination subdirectories; four LIVE scenarios with DigitalRFMirror.start() and the real observer threads (existing-then-live, late root, root replaced, backlog handled by start() while the observer delivers new files) judged with the sentinel protocol of vlib/live.py.'
)
RULE += ' Since rounds 7-8: aged source files, handlers built by the application from relative names.'
ASSUMPTIONS = ["events are dispatched synchronously to every handler of DigitalRFMirror.event_handlers; no observer thread",
               "a crash of the mirror is modelled as stopping between two of its file-system operations (page cache intact)"]
FLOORS = {"nontrivial": 0.5}
T0 = 1700000000


def budget(tier):
    return {"examples": 250 if tier == "quick" else 600, "shards": 1 if tier == "quick" else 16}


def rf_cfg(ci, F=1000):
    return {"kind": "i", "size": 2, "order": "<", "cplx": 1, "form": "struct", "nsub": 1, "n": 100, "d": 1, "F": F, "S": 10,
            "cont": 0, "comp": 0, "checksum": 0, "salt": 7 + ci, "uuid": "verif", "start": T0 * 100 + 130 + ci}


@st.composite
def _cases(draw, tier):
    nch = draw(st.integers(1, 2))
    chans = []
    for ci in range(nch):
        nfiles = draw(st.integers(3, 8))
        # write lengths so that the recording covers nfiles files (with one gap somewhere)
        gap_at = draw(st.integers(1, nfiles - 1))
        chans.append({"nfiles": nfiles, "gap_at": gap_at, "nmd": draw(st.integers(2, 5))})
    steps = []
    pend = []
    for ci, ch in enumerate(chans):
        seq = [("props", ci)] + [("rf", ci, i) for i in range(ch["nfiles"])]
        mds = [("md", ci, j) for j in range(ch["nmd"])]
        # interleave md writes among rf files
        for m in mds:
            seq.insert(draw(st.integers(1, len(seq))), m)
        pend.append(seq)
    # merge channels
    while any(pend):
        ci = draw(st.sampled_from([i for i, p in enumerate(pend) if p]))
        steps.append(list(pend[ci].pop(0)))
    # perturbations
    out = []
    for stp in steps:
        mode = draw(st.sampled_from(["ok"] * 6 + ["dup", "dup", "stale", "drop", "vanished", "replay", "startup", "late", "late"] +
                                    (["prune"] if stp[0] == "rf" else [])))
        out.append({"op": stp, "p": mode})
    if draw(st.integers(0, 2)) == 0:
        out.append({"op": ["end"], "p": draw(st.sampled_from(["replay", "startup"]))})
    case = {"chans": chans, "steps": out, "method": draw(st.sampled_from(["copy", "move", "move", "link"])),
            "xdev": draw(st.sampled_from([False, False, True])),
            "include_drf": True, "include_dmd": True, "start": None, "end": None}
    # optionally one I/O fault: the n-th publishing rename inside the destination fails with EIO
    case["fault"] = draw(st.sampled_from([None, None, None, 0, 1, 2, 3, 5, 8]))
    sel = draw(st.integers(0, 9))
    if sel == 0:
        case["include_dmd"] = False
    elif sel == 1:
        case["include_drf"] = False
    elif sel in (2, 3):
        case["start"] = (T0 + draw(st.integers(1, 4))) * 1000
    elif sel in (4, 5, 6):
        # an end time: later files (RF and metadata) are outside the mirror's window and must be left alone
        case["end"] = (T0 + draw(st.integers(1, 5))) * 1000
    # the window may be given as naive datetimes, which are documented to mean UTC (the checks run in another time zone)
    case["naive"] = draw(st.booleans())
    # how the mirror is built: the class, or the command line (drf mirror cp|mv|ln SRC DEST ...); `--link` / link=True with
    # the copy method means "hard links where possible" - for content and completeness the same as copying
    # sub-second file cadences (file names with a non-zero millisecond part) and window edges off the whole second
    case["F"] = draw(st.sampled_from([1000, 1000, 500, 250]))
    if case["F"] != 1000:
        for key in ("start", "end"):
            if case[key] is not None:
                case[key] = (case[key] - T0 * 1000) * case["F"] // 1000 + T0 * 1000 + draw(st.sampled_from([0, 0, 250, 500, 750, 1, 249]))
    case["ctor"] = draw(st.sampled_from(["api", "api", "cli"]))
    case["linkflag"] = case["method"] == "copy" and draw(st.booleans())
    case["verbose"] = draw(st.booleans())  # progress reports on stdout: must not change what is mirrored
    case["relhandler"] = draw(st.integers(0, 4)) == 0
    case["aged"] = draw(st.integers(0, 2)) == 0  # the source files carry old modification times (a backlog from yesterday)
    return case


def strategy(tier):
    return _cases(tier)


def directed_cases(tier):
    """Plain histories (every event delivered once, in order) with a time window given as naive datetimes - which are
    documented to mean UTC, whatever the time zone of the process - for each method and window shape."""
    out = []
    steps = [{"op": ["props", 0], "p": "ok"}]
    for i in range(6):
        steps.append({"op": ["rf", 0, i], "p": "ok"})
        if i % 2 == 0:
            steps.append({"op": ["md", 0, i // 2], "p": "ok"})
    for method in ("copy", "move", "link"):
        for start, end in (((T0 + 3) * 1000, None), (None, (T0 + 4) * 1000), ((T0 + 2) * 1000, (T0 + 5) * 1000)):
            for naive in (True, False):
                out.append({"chans": [{"nfiles": 6, "gap_at": 3, "nmd": 3}], "steps": [dict(s_) for s_ in steps], "method": method,
                            "xdev": False, "include_drf": True, "include_dmd": True, "start": start, "end": end, "fault": None,
                            "naive": naive})
        # the real observer threads (see run_live)
        for sc in LIVE_SCENARIOS:
            out.append({"live": sc, "method": method, "verbose": method == "move"})
        # 250 ms files (the recording begins at T0 + 1.30 s: files T0 + 1.25, 1.5, 1.75, 2.0, ...), window edges at T0 + 1.4 s and
        # T0 + 2.1 s - between two file times each
        out.append({"chans": [{"nfiles": 6, "gap_at": 3, "nmd": 3}], "steps": [dict(s_) for s_ in steps], "method": method,
                    "xdev": False, "include_drf": True, "include_dmd": True, "start": T0 * 1000 + 1400, "end": T0 * 1000 + 2100, "fault": None,
                    "naive": False, "F": 250})
    return out


def sha(p):
    h = hashlib.sha256()
    with open(p, "rb") as f:
        for blk in iter(lambda: f.read(1 << 20), b""):
            h.update(blk)
    return h.hexdigest()


class World:
    """Tracks what the source legitimately held, for the invariants."""

    def __init__(self, src, dest):
        self.src, self.dest = src, dest
        self.versions = {}  # relpath -> set of hashes the source file has had
        self.rf_final = {}  # relpath -> hash of finalized RF files
        self.latest = {}  # relpath -> hash of the newest version the source held
        self.fault_at = None  # index of the destination rename that fails (once)
        self.renames = 0
        self.faulted = set()  # relpaths (under dest) whose publishing rename was made to fail
        self.pruned = set()  # relpaths that a downstream consumer has taken out of the destination
        self.fail = None
        self.checks = 0
        self.move = False

    def note(self, rel):
        p = os.path.join(self.src, rel)
        if os.path.isfile(p):
            h = sha(p)
            self.versions.setdefault(rel, set()).add(h)
            self.latest[rel] = h

    def checkpoint(self, what, removing=None):
        if self.fail is not None:
            return
        self.checks += 1
        # (i) staged publication
        for dp, dn, fn in os.walk(self.dest):
            for f in fn:
                if f.startswith("tmp."):
                    continue
                p = os.path.join(dp, f)
                rel = os.path.relpath(p, self.dest)
                try:
                    h = sha(p)
                except OSError:
                    continue
                if rel not in self.versions:
                    self.fail = ("dest-unexpected-file", "%s at %s" % (rel, what))
                    return
                if h not in self.versions[rel]:
                    self.fail = ("incomplete-file-under-final-name", "%s at %s: content matches no version of the source file (size %d)" % (
                        rel, what, os.path.getsize(p)))
                    return
        # (ii) no loss of RF data files in move mode
        if self.move:
            for rel, h in self.rf_final.items():
                if rel in self.pruned:
                    continue  # delivered, and taken away by the consumer downstream
                cands = [os.path.join(self.src, rel), os.path.join(self.dest, rel),
                         os.path.join(self.dest, os.path.dirname(rel), "tmp." + os.path.basename(rel))]
                ok = False
                for c in cands:
                    try:
                        if os.path.isfile(c) and sha(c) == h:
                            ok = True
                            break
                    except OSError:
                        pass
                if not ok:
                    self.fail = ("rf-file-lost", "%s has no intact copy in source or destination at %s" % (rel, what))
                    return
        # (iii) removal of a metadata / properties file from the source
        if removing is not None and removing.startswith(self.src + os.sep):
            rel = os.path.relpath(removing, self.src)
            base = os.path.basename(rel)
            if base.endswith("_properties.h5"):
                self.fail = ("properties-removed-from-source", rel)
                return
            if "@" in base and base.count(".") == 1 and not base.startswith("tmp."):
                # a metadata data file: identical copy must already be in the destination
                d = os.path.join(self.dest, rel)
                dt = os.path.join(self.dest, os.path.dirname(rel), "tmp." + os.path.basename(rel))
                try:
                    same = (os.path.isfile(d) and sha(d) == sha(removing)) or rel in self.pruned
                    if not same and rel in self.faulted:
                        # the publishing rename was made to fail: the intact copy sits under its tmp. name
                        same = os.path.isfile(dt) and sha(dt) == sha(removing)
                except OSError:
                    same = False
                if not same:
                    self.fail = ("metadata-removed-before-copied", "%s removed from the source at %s without an identical copy in the destination" % (rel, what))


@contextlib.contextmanager
def wrapped(world):
    real = {"rename": os.rename, "link": os.link, "remove": os.remove, "unlink": os.unlink, "rmdir": os.rmdir,
            "makedirs": os.makedirs, "copyfile": shutil.copyfile, "replace": os.replace}
    active = [True]

    def mk(name, removing_arg=False):
        fn = real[name]

        def w(*a, **k):
            if not active[0]:
                return fn(*a, **k)
            active[0] = False
            try:
                world.checkpoint("before %s%r" % (name, tuple(os.path.basename(str(x)) for x in a[:2])),
                                 removing=str(a[0]) if removing_arg else None)
            finally:
                active[0] = True
            if name == "rename" and len(a) > 1 and str(a[1]).startswith(world.dest + os.sep):
                idx = world.renames
                world.renames += 1
                if world.fault_at is not None and idx == world.fault_at:
                    world.faulted.add(os.path.relpath(str(a[1]), world.dest))
                    raise OSError(5, "Input/output error (injected)", str(a[1]))
            r = fn(*a, **k)
            active[0] = False
            try:
                world.checkpoint("after %s%r" % (name, tuple(os.path.basename(str(x)) for x in a[:2])))
            finally:
                active[0] = True
            return r

        return w

    def copyfile(src, dst, *a, **k):
        if not active[0]:
            return real["copyfile"](src, dst, *a, **k)
        with open(src, "rb") as fi:
            data = fi.read()
        half = len(data) // 2
        with open(dst, "wb") as fo:
            fo.write(data[:half])
            fo.flush()
            active[0] = False
            try:
                world.checkpoint("mid-copy %s" % os.path.basename(dst))
            finally:
                active[0] = True
            fo.write(data[half:])
        return dst

    os.rename, os.link, os.remove, os.unlink = mk("rename"), mk("link"), mk("remove", True), mk("unlink", True)
    os.rmdir, os.makedirs, os.replace = mk("rmdir"), mk("makedirs"), mk("replace")
    shutil.copyfile = copyfile
    try:
        yield active
    finally:
        os.rename, os.link, os.remove, os.unlink = real["rename"], real["link"], real["remove"], real["unlink"]
        os.rmdir, os.makedirs, os.replace = real["rmdir"], real["makedirs"], real["replace"]
        shutil.copyfile = real["copyfile"]


LIVE_SCENARIOS = ["existing-then-live", "late-root", "root-replaced", "backlog-and-live"]


def run_live(case):
    """The mirror with its real observer threads (DirWatcher + watchdog): see vlib/live.py for how verdicts are taken."""
    import threading  # noqa: F401
    from digital_rf import mirror
    from vlib import live

    res = Result()
    res.nontrivial = True
    res.cls("live:" + case["live"])
    res.cls("method:" + case["method"])
    cfg = rf_cfg(0)
    with rfharness.scratch("c17l") as base:
        stage = os.path.join(base, "stage")
        ops = [{"op": "w", "idx": 0, "len": 270}, {"op": "w", "idx": 310, "len": 220 if case["live"] != "backlog-and-live" else 1300}]
        with rfharness.quiet_fds():
            rfharness.run_python(cfg, ops, os.path.join(stage, "ch0"))
            os.makedirs(os.path.join(stage, "ch0", "metadata"), exist_ok=True)
            mdw = rfharness.drf().DigitalMetadataWriter(os.path.join(stage, "ch0", "metadata"), 10, 2, 100, 1, "metadata")
            for j in range(3):
                mdw.write(cfg["start"] + j * 170, {"j": j})
        staged = live.files_under(stage)
        rf = sorted(r for r in staged if os.path.basename(r).startswith("rf@"))
        other = sorted(r for r in staged if r not in rf)
        src = os.path.join(base, "data", "src")
        dest = os.path.join(base, "out")
        os.makedirs(os.path.join(base, "data"))
        os.makedirs(os.path.join(base, "area"))
        os.makedirs(dest)

        def put(rel, root):
            if rel in rf:
                live.publish(staged[rel], os.path.join(root, rel))
            else:
                os.makedirs(os.path.dirname(os.path.join(root, rel)), exist_ok=True)
                shutil.copyfile(staged[rel], os.path.join(root, rel))

        expected = set(rf + other)
        if case["live"] == "backlog-and-live":
            # a backlog in two subdirectories is handled by start() in one thread WHILE the observer thread delivers files
            # that are being published into the newer subdirectory; the harness widens every hand-over by letting the path
            # arithmetic of both threads take 15 ms (it cannot schedule the threads, but it can slow them down)
            subs = sorted({os.path.dirname(r) for r in rf})
            late = [r for r in rf if os.path.dirname(r) == subs[-1]][1::2]
            for rel in other + [r for r in rf if r not in late]:
                put(rel, src)
        elif case["live"] != "late-root":
            for rel in other + rf[:2]:
                put(rel, src)
        out = io.StringIO()
        with contextlib.redirect_stdout(out):
            mir = mirror.DigitalRFMirror(src, dest, method=case["method"], verbose=bool(case.get("verbose")))
            if case["live"] == "backlog-and-live":
                real_relpath = os.path.relpath

                def slow_relpath(path, start=None):
                    time_sleep(0.015)
                    return real_relpath(path, start) if start is not None else real_relpath(path)

                os.path.relpath = slow_relpath
                try:
                    th = threading.Thread(target=mir.start)
                    th.start()
                    for rel in late:
                        put(rel, src)
                        time_sleep(0.01)
                    th.join(60)
                    time_sleep(0.5)
                finally:
                    os.path.relpath = real_relpath
            else:
                mir.start()
        try:
            with contextlib.redirect_stdout(out):
                if case["live"] == "existing-then-live":
                    for rel in rf[2:]:
                        put(rel, src)
                elif case["live"] == "late-root":
                    # the source directory does not exist when the mirror starts; it arrives complete (moved into place
                    # from another parent directory)
                    tmp_root = os.path.join(base, "area", "incoming")
                    for rel in other + rf:
                        put(rel, tmp_root)
                    time_sleep(0.3)
                    os.rename(tmp_root, src)
                else:
                    # the source is taken away and a fuller one is moved into its place
                    live.wait_for(lambda: all(os.path.exists(os.path.join(dest, r)) for r in other + rf[:2]), 10)
                    shutil.rmtree(src)  # (deleted - a directory that is MOVED away is something DirWatcher does not follow)
                    time_sleep(0.5)
                    tmp_root = os.path.join(base, "area", "incoming")
                    for rel in other + rf:
                        put(rel, tmp_root)
                    os.rename(tmp_root, src)

                def complete():
                    return all(live.same_bytes(staged[r], os.path.join(dest, r)) for r in expected)

                if not live.wait_for(complete, 15):
                    # is the pipeline alive?  one more file, published after everything else
                    sent_rel = os.path.join(os.path.dirname(rf[-1]), "rf@%d.000.h5" % (T0 + 50))
                    live.publish(staged[rf[-1]], os.path.join(src, sent_rel))
                    if live.wait_for(lambda: os.path.exists(os.path.join(dest, sent_rel)), 15):
                        time_sleep(1.0)
                        if not complete():
                            missing = sorted(r for r in expected if not live.same_bytes(staged[r], os.path.join(dest, r)))
                            res.fail("live-dest-missing:%s:%s" % (case["live"], case["method"]),
                                     "%d of %d files never arrived although a file published later did: %s" % (len(missing), len(expected), missing[:3]))
                    else:
                        res.cls("live-inconclusive")
                tmpleft = [r for r in live.files_under(dest) if os.path.basename(r).startswith("tmp.")]
                if tmpleft and not res.failures:
                    res.fail("live-tmp-leftover:%s:%s" % (case["live"], case["method"]), "%s" % sorted(tmpleft)[:3])
        finally:
            with contextlib.redirect_stdout(out):
                try:
                    mir.stop()
                    mir.observer.join(5)
                except Exception:
                    pass
        res.evaluations = len(expected)
    return res


def time_sleep(s):
    import time
    time.sleep(s)


def run_case(case):
    if case.get("live"):
        return run_live(case)
    res = Result()
    from watchdog import events as ev

    drf = rfharness.drf()
    from digital_rf import list_drf, mirror

    irregular = any(s["p"] != "ok" for s in case["steps"])
    nrf = sum(c["nfiles"] for c in case["chans"])
    res.nontrivial = any(s["p"] in ("dup", "stale", "vanished", "replay", "startup", "late") for s in case["steps"]) or (case["method"] == "move" and nrf >= 3)
    res.cls("method:" + case["method"])
    if case["xdev"]:
        res.cls("cross-device")
    xroot = None
    with rfharness.scratch("c17") as base:
        stage = os.path.join(base, "stage")
        src = os.path.join(base, "src")
        if case["xdev"]:
            xroot = os.path.join(VERIF, ".build", "scratch-c17-%d" % os.getpid())
            shutil.rmtree(xroot, ignore_errors=True)
            os.makedirs(xroot)
            dest = os.path.join(xroot, "dest")
        else:
            dest = os.path.join(base, "dest")
        os.makedirs(src)
        try:
            _run(case, res, base, stage, src, dest, ev, drf, list_drf, mirror)
        finally:
            if xroot:
                shutil.rmtree(xroot, ignore_errors=True)
    return res


def _run(case, res, base, stage, src, dest, ev, drf, list_drf, mirror):
    world = World(src, dest)
    world.move = case["method"] == "move"
    world.fault_at = case.get("fault")
    # ---- stage the RF recordings with the real writer
    stage_files = {}
    models = {}
    mdw = {}
    md_model = {}
    for ci, ch in enumerate(case["chans"]):
        cfg = rf_cfg(ci, case.get("F", 1000))
        spf = 100 * cfg["F"] // 1000  # samples per file (100 Hz)
        n1 = ch["gap_at"] * spf - 3 * spf // 10
        n2 = (ch["nfiles"] - ch["gap_at"]) * spf - 7 * spf // 10
        ops = [{"op": "w", "idx": 0, "len": n1}, {"op": "w", "idx": n1 + 4 * spf // 10, "len": max(1, n2 - 4 * spf // 10)}]
        with rfharness.quiet_fds():
            rfharness.run_python(cfg, ops, os.path.join(stage, "ch%d" % ci))
        m = rfmodel.Model(cfg)
        for op in ops:
            m.apply(op)
        models[ci] = (cfg, m)
        files, _ = rfharness.raw_files(os.path.join(stage, "ch%d" % ci))
        stage_files[ci] = sorted(files)
        os.makedirs(os.path.join(src, "ch%d" % ci, "metadata"))
        shutil.copy(os.path.join(stage, "ch%d" % ci, "drf_properties.h5"), os.path.join(src, "ch%d" % ci, "drf_properties.h5"))
        mdw[ci] = drf.DigitalMetadataWriter(os.path.join(src, "ch%d" % ci, "metadata"), 10, 2, 100, 1, "metadata")
        md_model[ci] = {}
        # the properties files exist from the start (a start-up replay may mirror them before their own event)
        world.note("ch%d/drf_properties.h5" % ci)
        world.note("ch%d/metadata/dmd_properties.h5" % ci)
    start = None if case["start"] is None else __import__("datetime").datetime.fromtimestamp(case["start"] / 1000.0, tz=__import__("datetime").timezone.utc)
    end = None if case["end"] is None else __import__("datetime").datetime.fromtimestamp(case["end"] / 1000.0, tz=__import__("datetime").timezone.utc)
    if case.get("naive"):
        start = None if start is None else start.replace(tzinfo=None)
        end = None if end is None else end.replace(tzinfo=None)
    with wrapped(world) as active:
        with contextlib.redirect_stdout(io.StringIO()):
            if case.get("ctor") == "cli":
                from digital_rf import drf_command
                argv = ["mirror", {"copy": "cp", "move": "mv", "link": "ln"}[case["method"]], src, dest]
                for flag, ms in (("-s", case["start"]), ("-e", case["end"])):
                    if ms is not None:
                        argv += [flag, "%d.%03d" % (ms // 1000, ms % 1000)]
                if not case["include_drf"]:
                    argv.append("--nodrf")
                if not case["include_dmd"]:
                    argv.append("--nodmd")
                if case.get("linkflag"):
                    argv.append("--link")
                if case.get("verbose"):
                    argv.append("-v")
                got_ = []
                real_run = mirror.DigitalRFMirror.run
                mirror.DigitalRFMirror.run = lambda self_: got_.append(self_)
                try:
                    drf_command.main(argv)
                finally:
                    mirror.DigitalRFMirror.run = real_run
                mir = got_[0]
            else:
                mir = mirror.DigitalRFMirror(src, dest, method=case["method"], starttime=start, endtime=end,
                                             include_drf=case["include_drf"], include_dmd=case["include_dmd"],
                                             verbose=bool(case.get("verbose")), **({"link": True} if case.get("linkflag") else {}))
        handlers = mir.event_handlers
        if case.get("relhandler") and case.get("ctor") != "cli" and case["method"] in ("copy", "move"):
            # an application that builds the (public) mirror handlers itself, naming source and destination relative to
            # its current directory - and changes directory afterwards; events carry absolute paths as observers deliver them
            res.cls("handlers-built-from-relative-paths")
            cwd0 = os.getcwd()
            os.chdir(os.path.dirname(src))
            try:
                rs, rd_ = os.path.relpath(src), os.path.relpath(dest)
                kw_ = dict(verbose=bool(case.get("verbose")), starttime=start, endtime=end)
                new_h = [mirror.DigitalRFMirrorHandler(rs, rd_, mirror_fun=shutil.copy2, include_drf=case["include_drf"] and case["method"] == "copy",
                                                       include_dmd=case["include_dmd"], include_drf_properties=case["include_drf"],
                                                       include_dmd_properties=case["include_dmd"], **kw_)]
                if case["include_drf"] and case["method"] == "move":
                    new_h.append(mirror.DigitalRFMirrorHandler(rs, rd_, mirror_fun=shutil.move, include_drf=True, include_dmd=False,
                                                               include_drf_properties=False, include_dmd_properties=False, **kw_))
                handlers = new_h + [h_ for h_ in handlers if not isinstance(h_, mirror.DigitalRFMirrorHandler)]
                mir.event_handlers = handlers
            finally:
                os.chdir(cwd0)
        processed = set()  # relpaths whose (latest) events reached the mirror
        history = []  # final-name relpaths reported so far

        deferred = []  # events of "late" steps: delivered after the events of the following step (reordering)
        holding = [False]

        def dispatch(e, match_time=True):
            if holding[0]:
                deferred.append((e, match_time))
                return
            with contextlib.redirect_stdout(io.StringIO()), contextlib.redirect_stderr(io.StringIO()):
                for h in handlers:
                    if match_time:
                        h.dispatch(e)
                    else:
                        h.dispatch(e, match_time=False)

        def created(rel):
            dispatch(ev.FileCreatedEvent(os.path.join(src, rel)))

        class _NoObserver:
            """The harness owns the schedule: the real start() is run, but no observer thread is started."""

            def start(self):
                pass

            def all_alive(self):
                return True

            def stop(self):
                pass

            def join(self, *a):
                pass

        mir.observer = _NoObserver()
        startup_listed = set()  # data / metadata files the start-up listing selected (its forward-fill file included)

        def startup():
            # the expectation comes from the listing (C14's subject); the events come from the mirror's own start()
            with contextlib.redirect_stdout(io.StringIO()):
                paths = list(list_drf.ilsdrf(src, include_drf=False, include_dmd=False, include_drf_properties=case["include_drf"],
                                             include_dmd_properties=case["include_dmd"]))
                more = list(list_drf.ilsdrf(src, starttime=start, endtime=end, include_drf=case["include_drf"],
                                            include_dmd=case["include_dmd"], include_drf_properties=False,
                                            include_dmd_properties=False))
            for p in paths + more:
                processed.add(os.path.relpath(p, src))
            for p in more:
                startup_listed.add(os.path.relpath(p, src))
            with contextlib.redirect_stdout(io.StringIO()), contextlib.redirect_stderr(io.StringIO()):
                mir.start()

        md_count = {}
        for si, stp in enumerate(case["steps"]):
            op, pert = stp["op"], stp["p"]
            res.evaluations += 1
            holding[0] = pert == "late"
            try:
                if op[0] == "props":
                    ci = op[1]
                    for rel in ("ch%d/drf_properties.h5" % ci, "ch%d/metadata/dmd_properties.h5" % ci):
                        active[0] = False
                        world.note(rel)
                        active[0] = True
                        if pert != "drop":
                            created(rel)
                            processed.add(rel)
                        history.append(rel)
                elif op[0] == "rf":
                    ci, i = op[1], op[2]
                    rel = "ch%d/%s" % (ci, stage_files[ci][i])
                    if pert == "prune":
                        # a consumer downstream (another mirror in move mode, an archiver) has taken the delivered RF files
                        # and removed the emptied time-stamped subdirectories of this channel from the destination
                        active[0] = False
                        chd_ = os.path.join(dest, "ch%d" % ci)
                        for sub_ in (sorted(os.listdir(chd_)) if os.path.isdir(chd_) else []):
                            sp_ = os.path.join(chd_, sub_)
                            if os.path.isdir(sp_) and sub_ != "metadata":
                                names_ = os.listdir(sp_)
                                if any(f_.startswith("tmp.") for f_ in names_):
                                    continue  # (a staged file of a faulted publication stays where it is)
                                for f_ in names_:
                                    world.pruned.add(os.path.join("ch%d" % ci, sub_, f_))
                                shutil.rmtree(sp_)
                        active[0] = True
                    fin = os.path.join(src, rel)
                    tmp = os.path.join(os.path.dirname(fin), "tmp." + os.path.basename(fin))
                    active[0] = False
                    os.makedirs(os.path.dirname(fin), exist_ok=True)
                    shutil.copy(os.path.join(stage, rel), tmp)
                    active[0] = True
                    if pert != "drop":
                        dispatch(ev.FileCreatedEvent(tmp))
                        dispatch(ev.FileModifiedEvent(tmp))
                    active[0] = False
                    if case.get("aged"):
                        os.utime(tmp, (1600000000, 1600000000))
                    os.rename(tmp, fin)
                    world.note(rel)
                    world.rf_final[rel] = sha(fin)
                    active[0] = True
                    history.append(rel)
                    if pert != "drop":
                        dispatch(ev.FileMovedEvent(tmp, fin))
                        processed.add(rel)
                    if pert == "dup":
                        dispatch(ev.FileMovedEvent(tmp, fin))
                        created(rel)
                    elif pert == "stale":
                        dispatch(ev.FileModifiedEvent(fin))
                        dispatch(ev.FileModifiedEvent(tmp))
                elif op[0] == "md":
                    ci, j = op[1], op[2]
                    cfg, _m = models[ci]
                    k = cfg["start"] + j * 170
                    mddir = os.path.join(src, "ch%d" % ci, "metadata")
                    active[0] = False
                    before = set(_walk(mddir))
                    mdw[ci].write(k, {"j": j, "name": "m%d" % j})
                    md_model[ci][k] = j
                    after = set(_walk(mddir))
                    active[0] = True
                    # the file the sample went to
                    from vlib import mdharness as M
                    frel = "ch%d/metadata/%s" % (ci, M.exact_path(k, 100, 1, 2, 10, "metadata"))
                    prel = "ch%d/metadata/dmd_properties.h5" % ci
                    active[0] = False
                    world.note(frel)
                    nver = len(world.versions.get(prel, ()))
                    world.note(prel)
                    props_changed = len(world.versions.get(prel, ())) != nver
                    active[0] = True
                    if props_changed:
                        # the first write adds the field list to the properties file: a modified event in real life
                        if pert != "drop":
                            dispatch(ev.FileModifiedEvent(os.path.join(src, prel)))
                            processed.add(prel)
                        else:
                            processed.discard(prel)
                    isnew = (os.path.relpath(os.path.join(src, frel), mddir) not in before)
                    history.append(frel)
                    if pert != "drop":
                        if isnew:
                            created(frel)
                        dispatch(ev.FileModifiedEvent(os.path.join(src, frel)))
                        processed.add(frel)
                    else:
                        processed.discard(frel)
                    if pert == "dup":
                        created(frel)
                        dispatch(ev.FileModifiedEvent(os.path.join(src, frel)))
                if pert == "vanished" and history:
                    # events for files that are gone (already moved) or never existed
                    dispatch(ev.FileCreatedEvent(os.path.join(src, history[0])))
                    dispatch(ev.FileModifiedEvent(os.path.join(src, "ch0", "2023-11-14T22-13-20", "rf@%d.000.h5" % (T0 + 99))))
                    dispatch(ev.FileDeletedEvent(os.path.join(src, history[-1])))
                elif pert == "replay":
                    for rel in list(history):
                        if os.path.exists(os.path.join(src, rel)):
                            processed.add(rel)
                        created(rel)
                elif pert == "startup":
                    startup()
                if not holding[0] and deferred:
                    late_events = list(deferred)
                    del deferred[:]
                    for e_, mt_ in late_events:
                        dispatch(e_, mt_)
            except Exception as e:
                res.fail("exception:%s" % type(e).__name__, "step %d %r: %s" % (si, stp, e))
                return
            if world.fail:
                res.fail(world.fail[0] + ":" + case["method"], "step %d %r: %s" % (si, stp, world.fail[1]))
                return
        # deliver what is still held back
        holding[0] = False
        for e_, mt_ in list(deferred):
            dispatch(e_, mt_)
        if world.fail:
            res.fail(world.fail[0] + ":" + case["method"], "late events at the end: %s" % world.fail[1])
            return
    res.evaluations += world.checks
    # ---- end state
    sel = set()
    maybe = set()
    ffill = set()
    for rel in processed:
        base_ = os.path.basename(rel)
        if base_ == "drf_properties.h5":
            if case["include_drf"]:
                sel.add(rel)
            continue
        if base_ == "dmd_properties.h5":
            if case["include_dmd"]:
                sel.add(rel)
            continue
        is_rf = base_.startswith("rf@")
        if is_rf and not case["include_drf"]:
            continue
        if not is_rf and not case["include_dmd"]:
            continue
        stamp = base_.split("@")[1][:-3]
        ms = int(stamp.split(".")[0]) * 1000 + (int(stamp.split(".")[1]) if "." in stamp else 0)
        if (case["start"] is not None and ms < case["start"]) or (case["end"] is not None and ms > case["end"]):
            if not is_rf and case["start"] is not None and ms < case["start"]:
                # the metadata file in force at the start time: the start-up listing selects it and start() mirrors it
                # whatever its own time stamp; a live event for it is outside the window
                (ffill if rel in startup_listed else maybe).add(rel)
            continue
        sel.add(rel)
    present = set(_walk(dest)) if os.path.isdir(dest) else set()
    def _is_faulted_tmp(p):
        return os.path.join(os.path.dirname(p), os.path.basename(p)[4:]) in world.faulted

    tmpleft = [p for p in present if os.path.basename(p).startswith("tmp.") and not _is_faulted_tmp(p)]
    sel -= world.faulted  # a file whose publishing rename failed may legitimately be missing (it must not be LOST)
    sel -= world.pruned   # delivered once and taken away downstream (a later event may or may not deliver it again)
    maybe |= world.pruned
    maybe |= world.faulted
    if world.faulted:
        res.cls("injected-rename-fault")
    if tmpleft:
        res.fail("tmp-leftover:" + case["method"], "%s" % sorted(tmpleft)[:3])
    ffill -= world.faulted
    for rel in sorted(ffill - present):
        res.fail("dest-missing-startup-listed:" + case["method"], "%s was selected by the start-up listing (metadata in force at the start time) but is not in the destination" % rel)
    for rel in sorted(ffill & present):
        if sha(os.path.join(dest, rel)) not in world.versions.get(rel, ()):
            res.fail("dest-content:" + case["method"], "%s is no version the source file ever had" % rel)
    maybe |= ffill
    missing = sel - present
    extra = present - set(p for p in present if os.path.basename(p).startswith("tmp.")) - set(history) - maybe
    if missing:
        res.fail("dest-missing:" + case["method"], "%s" % sorted(missing)[:3])
    if extra:
        res.fail("dest-extra:" + case["method"], "%s" % sorted(extra)[:3])
    for rel in sorted(sel & present):
        d = os.path.join(dest, rel)
        s = os.path.join(src, rel)
        want = sha(s) if os.path.exists(s) else world.latest.get(rel)
        if sha(d) != want:
            res.fail("dest-content:" + case["method"], "%s differs from the source file" % rel)
            break
    # source: properties and newest metadata stay
    for ci in range(len(case["chans"])):
        for rel in ("ch%d/drf_properties.h5" % ci, "ch%d/metadata/dmd_properties.h5" % ci):
            if not os.path.exists(os.path.join(src, rel)):
                res.fail("properties-removed-from-source:" + case["method"], rel)
        mdfiles = sorted(p for p in _walk(os.path.join(src, "ch%d" % ci, "metadata")) if "@" in p)
        allmd = sorted(set(h for h in history if h.startswith("ch%d/metadata/" % ci) and "@" in h))
        if allmd and os.path.relpath(os.path.join(src, allmd[-1]), os.path.join(src, "ch%d" % ci, "metadata")) not in mdfiles:
            res.fail("newest-metadata-removed-from-source:" + case["method"], allmd[-1])
        if case["method"] != "move":
            for h in history:
                if not os.path.exists(os.path.join(src, h)):
                    res.fail("source-file-removed:" + case["method"], h)
                    break
    if res.failures:
        return
    # ---- readers on the destination agree with the source model
    for ci in range(len(case["chans"])):
        cfg, m = models[ci]
        rels = [r for r in sel if r.startswith("ch%d/" % ci) and os.path.basename(r).startswith("rf@")]
        if "ch%d/drf_properties.h5" % ci in sel and rels:
            try:
                rtop = os.path.join(base, "rd%d" % ci)
                os.makedirs(rtop, exist_ok=True)
                os.symlink(os.path.join(dest, "ch%d" % ci), os.path.join(rtop, "ch%d" % ci))
                with rfharness.quiet_fds():
                    rd = drf.DigitalRFReader(rtop)
                for r in rels:
                    stamp = os.path.basename(r)[3:-3]
                    ms = int(stamp.split(".")[0]) * 1000 + int(stamp.split(".")[1])
                    lo, hi = rfmodel.window(cfg, ms)
                    f = rfharness.check_read(cfg, m, rd, "ch%d" % ci, lo, hi - 1)
                    if f:
                        res.fail("dest-reader-" + f[0] + ":" + case["method"], f[1])
                        break
                rd.close()
            except Exception as e:
                res.fail("dest-reader-exception:" + case["method"], "%s: %s" % (type(e).__name__, e))
        mdsel = [r for r in sel if r.startswith("ch%d/metadata/" % ci) and "@" in r]
        if "ch%d/metadata/dmd_properties.h5" % ci in sel and mdsel and case["start"] is None and case["end"] is None:
            try:
                mr = drf.DigitalMetadataReader(os.path.join(dest, "ch%d" % ci, "metadata"))
                from vlib import mdharness as M
                have = sel | (world.faulted & present)  # a faulted file may have been mirrored by a later event after all
                exp = {k: j for k, j in md_model[ci].items() if "ch%d/metadata/%s" % (ci, M.exact_path(k, 100, 1, 2, 10, "metadata")) in have}
                # a file in sel holds all samples written to it (its last event was processed)
                lo_k, hi_k = min(md_model[ci]), max(md_model[ci])
                got = mr.read(lo_k, hi_k)
                gk = {int(k): v.get("j") for k, v in got.items()}
                if gk != exp:
                    res.fail("dest-metadata-differs:" + case["method"], "got %r expected %r" % (sorted(gk.items())[:5], sorted(exp.items())[:5]))
            except Exception as e:
                res.fail("dest-metadata-exception:" + case["method"], "%s: %s" % (type(e).__name__, e))


def _walk(root):
    out = []
    for dp, dn, fn in os.walk(root):
        for f in fn:
            out.append(os.path.relpath(os.path.join(dp, f), root))
    return out


def shrink_candidates(case):
    if case.get("live"):
        return
    steps = case["steps"]
    for i, s in enumerate(steps):
        if s["p"] != "ok":
            yield dict(case, steps=steps[:i] + [dict(s, p="ok")] + steps[i + 1:])
    if len(case["chans"]) > 1:
        yield dict(case, chans=case["chans"][:1], steps=[s for s in steps if len(s["op"]) < 2 or s["op"][1] == 0])
    for key, val in (("xdev", False), ("start", None), ("end", None), ("include_drf", True), ("include_dmd", True), ("fault", None)):
        if key not in case:
            continue
        if case[key] != val:
            yield dict(case, **{key: val})
