"""C04 - deterministic time-partitioned file layout (DESIGN.md section 4, C04)."""
from __future__ import annotations

import os
import re

from hypothesis import strategies as st

from checks import c01, c03
from vlib import rfharness, rfmodel, strategies as S
from vlib.campaign import Result

PID = "C04"
LEVEL = "exploration"
ENGINE = "pbt+cfuzz"
TECHNIQUE = "property-based testing: generated recordings inspected file-by-file with raw h5py against big-integer placement; libFuzzer target for the naming arithmetic"
RULE = (
    "Hypothesis draws boundary-directed configurations and write sequences (80% of start indices sit within a few "
    "samples of a file/subdirectory boundary), executed through the Python writer or the C API; every rf@*.h5 is "
    "opened raw and every index range it stores must map, by big-integer arithmetic, to exactly that file name and "
    "directory; the union over files must equal the model's written set without duplicates, no file missing or "
    "unexpected. Non-trivial: some written sample is the first or last sample of a file window and the rate is "
    "not millisecond-aligned. libFuzzer additionally drives digital_rf_get_subdir_file against an __int128 oracle."
)
ASSUMPTIONS = c01.ASSUMPTIONS[:2]
FLOORS = {"nontrivial": 0.3, "start-inexact-in-double": 0.03}
RE_FILE = re.compile(r"^rf@(\d+)\.(\d{3})\.h5$")
RE_DIR = re.compile(r"^(\d{4})-(\d{2})-(\d{2})T(\d{2})-(\d{2})-(\d{2})$")


def budget(tier):
    return {"examples": 140 if tier == "quick" else 400, "shards": 1 if tier == "quick" else 16,
            "examples2": 150 if tier == "quick" else 100}


def strategy2(tier):
    from checks import c11
    return c11.session_strategy(tier)


def _session_tree(tops, cfg, fail):
    """Second stage: the placement clauses on the trees left by multi-session histories (no model needed: names are a
    pure function of the indices a file stores; no index in two files)."""
    r2 = Result()
    for t in tops:
        ch = os.path.join(t, "ch0")
        if os.path.isdir(ch):
            check_layout(cfg, None, ch, r2, ":sessions")
    for sig, d in r2.failures:
        fail("sess-" + sig, d)


@st.composite
def _cases(draw, tier):
    cfg = draw(S.rf_configs(spf_cap=2048, boundary_p=0.8))
    ops = draw(S.write_ops(cfg, max_calls=6 if tier == "quick" else 10, max_files=4))
    return {"cfg": cfg, "ops": ops, "path": draw(st.sampled_from(["py", "c"]))}


def strategy(tier):
    return _cases(tier)


def check_layout(cfg, m, ch, res, tag=""):
    files, others = rfharness.raw_files(ch)
    exp_paths = {}
    if m is not None:
        exp_stamps = m.file_windows()
        for ms in exp_stamps:
            lo, _ = rfmodel.window(cfg, ms)
            exp_paths[rfmodel.rel_path(cfg, lo)] = ms
        for o in others:
            if o not in ("drf_properties.h5",):
                res.fail("stray-entry" + tag, o)
        for rel in sorted(set(files) - set(exp_paths)):
            res.fail("unexpected-file" + tag, "%s (model expects %s...)" % (rel, sorted(exp_paths)[:3]))
        for rel in sorted(set(exp_paths) - set(files)):
            res.fail("missing-file" + tag, rel)
    seen = []
    for rel, info in sorted(files.items()):
        if "error" in info:
            res.fail("unreadable-file" + tag, rel + " " + info["error"])
            continue
        sub, fn = rel.split("/")
        mf, md = RE_FILE.match(fn), RE_DIR.match(sub)
        if not mf or not md:
            res.fail("name-grammar" + tag, rel)
            continue
        stamp = int(mf.group(1)) * 1000 + int(mf.group(2))
        if stamp % cfg["F"]:
            res.fail("stamp-not-multiple" + tag, rel)
        import calendar
        dsec = calendar.timegm(tuple(int(x) for x in md.groups()) + (0, 0, 0))
        if dsec % cfg["S"]:
            res.fail("dir-not-multiple" + tag, rel)
        if (stamp // 1000) // cfg["S"] * cfg["S"] != dsec:
            res.fail("file-in-wrong-dir" + tag, "%s: the directory of stamp %d is %s" % (rel, stamp, rfmodel.subdir_name((stamp // 1000) // cfg["S"] * cfg["S"])))
        for s, ln in rfharness.stored_ranges(info):
            if ln <= 0:
                continue
            for k in (s, s + ln - 1):
                if rfmodel.file_ms(cfg, k) != stamp:
                    res.fail("sample-in-wrong-file" + tag, "%s holds index %d whose file stamp is %d" % (rel, k, rfmodel.file_ms(cfg, k)))
                if rfmodel.subdir_s(cfg, k) != dsec:
                    res.fail("sample-in-wrong-dir" + tag, "%s holds index %d whose dir is %d" % (rel, k, rfmodel.subdir_s(cfg, k)))
            seen.append((s, ln, rel))
        # per-file expected set
        if rel in exp_paths:
            ms = exp_paths[rel]
            if cfg["cont"] and not rfmodel.chunked(cfg):
                lo, hi = rfmodel.window(cfg, ms)
                exp = [(lo, hi - lo)]
            else:
                exp = rfharness.merge_ranges([(a, ln) for a, ln, _, _ in m.written_indices_in_file(ms)])
            got = rfharness.merge_ranges(rfharness.stored_ranges(info))
            if got != exp:
                res.fail("file-index-set" + tag, "%s stores %s, model %s" % (rel, got[:4], exp[:4]))
    seen.sort()
    for i in range(1, len(seen)):
        if seen[i - 1][0] + seen[i - 1][1] > seen[i][0]:
            res.fail("duplicate-index" + tag, "%s and %s overlap at %d" % (seen[i - 1][2], seen[i][2], seen[i][0]))
    return files


def run_case(case):
    if case.get("kind") == "sessions":
        from checks import c11
        return c11.run_sessions(case, ("sess-",), _session_tree)
    res = Result()
    cfg = case["cfg"]
    m = c01.build_model(case)
    edge = False
    for ms in m.file_windows():
        lo, hi = rfmodel.window(cfg, ms)
        for r in m.runs:
            if r[0] <= lo < r[0] + r[1] or r[0] <= hi - 1 < r[0] + r[1]:
                edge = True
    nonms = (cfg["d"] * 1000) % cfg["n"] != 0
    res.nontrivial = edge and nonms
    if nonms:
        res.cls("nonms")
    if float(cfg["start"]) != cfg["start"]:
        res.cls("start-inexact-in-double")
    if case["path"] == "c":
        res.cls("cpath")
    if len(m.file_windows()) > 1:
        res.cls("multifile")
    with rfharness.scratch("c04") as top:
        for f in c01.execute(case, top):
            res.fail(*f)
        if res.failures:
            return res
        check_layout(cfg, m, os.path.join(top, "ch0"), res, ":" + case["path"])
    return res


def shrink_candidates(case):
    if case.get("kind") == "sessions":
        from checks import c11
        return c11.session_shrink(case)
    return c01.shrink_candidates(dict(case, reads=[[0, 0]]))


def extra(tier, seed, camp):
    c03._fuzz(tier, seed, camp, mode="layout", tag="fuzz_layout")
