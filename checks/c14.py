"""C14 - listing is sound, complete, ordered and window-exact (DESIGN.md section 4, C14)."""
from __future__ import annotations

import os

from hypothesis import strategies as st

from vlib import lstree as L, rfharness
from vlib.campaign import Result

PID = "C14"
LEVEL = "exploration"
TECHNIQUE = "property-based testing: generated directory trees x option sets, listing compared with a set-theoretic oracle computed from the generated description (own file-name parser), reverse / forward metamorphic relation; thorough adds coverage-guided fuzzing (atheris) of the same strategy"
ENGINE = "pbt+atheris"
RULE = (
    "Hypothesis builds real trees (1-3 levels; rf, dmd, legacy metadata.h5 channels; rf channel holding a 'metadata' "
    "channel; sparse and EMPTY timestamped subdirectories; tmp.*, other-kind, malformed and misplaced stray files; "
    "data files in directories without a properties file) and draws 4 option sets each: include flags (None "
    "defaults), recursive, reverse, start/end in {None, before all, after all, exactly a file time, +-1 ms, "
    "between files, a subdirectory time}, listing root in {top, a channel, a timestamped subdirectory}, optionally one "
    "subdirectory whose os.listdir raises FileNotFoundError. Oracle from the description: exact expected set (window "
    "inclusive, plus for metadata channels the latest file before start when no file is at start), no duplicates, "
    "per-channel time order (reversed when reverse), set(reverse)==set(forward), no exception. Non-trivial: a time "
    "window over a channel with >= 2 subdirectories, or an empty subdirectory, or reverse."
    ' Also: naive datetimes, bases at the epoch / 10^9 s / 2^32 s, prefixes that begin with tmp or hold regex / format characters, channels recorded at the same time, and a differential run of the `drf ls --abs` command line (both time spellings, default and explicit flags) against lsdrf.'
)
RULE += ' Since rounds 7-8: window edges between milliseconds, names with non-ASCII digits, channel names that are prefixes of each other, the reversed twin judged in full, the listing repeated, warnings turned into errors.'
RULE += ' Round 9: the directory named twice on the drf ls command line (relative output), grouping directories named like time stamps.'
ASSUMPTIONS = ["files are empty placeholders (listing never opens them)",
               "for a legacy metadata.h5 channel, and when a subdirectory vanishes, the forward-fill file is accepted present or absent"]
FLOORS = {"nontrivial": 0.5}


def budget(tier):
    return {"examples": 1200 if tier == "quick" else 2500, "shards": 1 if tier == "quick" else 16}


@st.composite
def _cases(draw, tier):
    tree = draw(L.trees())
    n = 4 if tier == "quick" else 8
    return {"tree": tree, "opts": [draw(L.options(tree)) for _ in range(n)]}


def strategy(tier):
    return _cases(tier)


def directed_cases(tier):
    # design-phase probes (F6): reverse changes the set; empty first subdirectory of a dmd channel
    t = 1700000000 // 60 * 60
    ch = {"name": "chA", "kind": "dmd", "S": 60, "F": 1000, "strays": [], "children": [], "subdirs": [
        {"t": t, "files": [{"name": L.dmd_name("md", t * 1000 + 5000), "ms": t * 1000 + 5000}], "strays": []},
        {"t": t + 60, "files": [{"name": L.dmd_name("md", (t + 60) * 1000 + 2000), "ms": (t + 60) * 1000 + 2000},
                                {"name": L.dmd_name("md", (t + 60) * 1000 + 30000), "ms": (t + 60) * 1000 + 30000}], "strays": []},
        {"t": t + 120, "files": [{"name": L.dmd_name("md", (t + 120) * 1000 + 1000), "ms": (t + 120) * 1000 + 1000}], "strays": []}]}
    tree = {"name": "top", "kind": "plain", "subdirs": [], "strays": [], "children": [ch]}
    base = {"include_drf": True, "include_dmd": True, "include_drf_properties": None, "include_dmd_properties": None,
            "recursive": True, "root": "top", "vanish": None}
    o1 = dict(base, reverse=True, start=(t + 60) * 1000 + 10000, end=(t + 120) * 1000 + 5000)
    ch2 = dict(ch, subdirs=[ch["subdirs"][0], {"t": t + 60, "files": [], "strays": []}, ch["subdirs"][2]])
    tree2 = {"name": "top", "kind": "plain", "subdirs": [], "strays": [], "children": [ch2]}
    o2 = dict(base, reverse=False, start=(t + 60) * 1000 + 10000, end=None)
    return [{"tree": tree, "opts": [o1, dict(o1, reverse=False)]}, {"tree": tree2, "opts": [o2]}]


class _Vanish:
    def __init__(self, path):
        self.path = path
        self.real = os.listdir

    def __enter__(self):
        path, real = self.path, self.real

        def listdir(p="."):
            if path is not None and os.path.abspath(p) == path:
                raise FileNotFoundError(2, "No such file or directory", p)
            return real(p)

        os.listdir = listdir
        return self

    def __exit__(self, *a):
        os.listdir = self.real


def run_listing(base, opts, drf):
    van = os.path.join(base, opts["vanish"]) if opts.get("vanish") else None
    import warnings
    with _Vanish(van), warnings.catch_warnings():
        if opts.get("werror"):
            # the application runs with warnings turned into errors (python -W error, a test runner configured that way):
            # a listing that would "warn and go on" then does not go on
            warnings.simplefilter("error")
        out = drf.lsdrf(os.path.join(base, opts["root"]), **L.lsdrf_kwargs(opts))
    return [os.path.relpath(p, base) for p in out]


def cli_argv(base, opts, tfmt):
    """`drf ls` arguments that mean the same as lsdrf(**L.lsdrf_kwargs(opts))."""
    def t(ms):
        if tfmt == "float":
            return "%d.%03d" % (ms // 1000, ms % 1000)
        return L.to_dt(ms).strftime("%Y-%m-%dT%H:%M:%S.") + "%03dZ" % (ms % 1000)

    a = ["ls", "--abs", os.path.join(base, opts["root"])]
    if opts["recursive"]:
        a.append("-r")
    if opts["reverse"]:
        a.append("-R")
    if opts["start"] is not None:
        a += ["-s", t(opts["start"])]
    if opts["end"] is not None:
        a += ["-e", t(opts["end"])]
    # kind flags: an included kind is the default (sometimes spelled out), an excluded one needs its --no flag; the
    # properties flags are given only when the options set them (None = follow the kind flag)
    for key, yes, no in (("include_drf", "--drf", "--nodrf"), ("include_dmd", "--dmd", "--nodmd")):
        if not opts[key]:
            a.append(no)
        elif tfmt == "float":
            a.append(yes)
    for key, yes, no in (("include_drf_properties", "--drfprops", "--nodrfprops"), ("include_dmd_properties", "--dmdprops", "--nodmdprops")):
        if opts[key] is not None:
            a.append(yes if opts[key] else no)
    return a


def run_cli_listing(base, opts, tfmt):
    import contextlib
    import io
    from digital_rf import drf_command
    van = os.path.join(base, opts["vanish"]) if opts.get("vanish") else None
    buf = io.StringIO()
    with _Vanish(van), contextlib.redirect_stdout(buf):
        drf_command.main(cli_argv(base, opts, tfmt))
    return [os.path.relpath(p, base) for p in buf.getvalue().splitlines() if p]


def judge(tree, opts, got, fail, what=""):
    required, maybe, per_channel = L.expected_listing(tree, opts)
    gs = set(got)
    if len(got) != len(gs):
        dup = [p for p in gs if got.count(p) > 1]
        fail("duplicate", "%s%r listed more than once" % (what, dup[:3]))
    missing = required - gs
    extra = gs - required - maybe
    if missing:
        kinds = "fill" if any(True for _ in missing) and opts["start"] is not None else "plain"
        fail("missing" + (":reverse" if opts["reverse"] else ""), "%smissing %s (opts %s)" % (what, sorted(missing)[:3], _o(opts)))
    if extra:
        tmp = [p for p in extra if os.path.basename(p).startswith("tmp.")]
        fail(("extra-tmp" if tmp else "extra") + (":reverse" if opts["reverse"] else ""), "%sunexpected %s (opts %s)" % (what, sorted(extra)[:3], _o(opts)))
    # order within each channel
    for chpath, exp_order in per_channel.items():
        pos = [got.index(p) for p in exp_order if p in gs]
        want = sorted(pos, reverse=opts["reverse"])
        if pos != want:
            fail("order", "%schannel %s not in %s time order" % (what, chpath, "descending" if opts["reverse"] else "ascending"))


def _o(opts):
    return {k: v for k, v in opts.items() if v not in (None,) or k in ("start", "end")}


def run_case(case):
    res = Result()
    tree = case["tree"]
    drf = rfharness.drf()
    seen = set()

    def fail(sig, detail):
        if sig not in seen:
            seen.add(sig)
            res.fail(sig, detail)

    nchan = [nd for _p, nd in L.all_channels(tree) if nd["kind"] != "plain"]
    has_empty = any(not sd["files"] for nd in nchan for sd in nd["subdirs"])
    multi = any(len(nd["subdirs"]) >= 2 for nd in nchan)
    nt = False
    with rfharness.scratch("c14") as base:
        L.build(tree, base)
        for opts in case["opts"]:
            res.evaluations += 1
            if ((opts["start"] is not None or opts["end"] is not None) and multi) or has_empty or opts["reverse"]:
                nt = True
            if opts["start"] is not None:
                res.cls("window-start")
            if opts.get("vanish"):
                res.cls("vanish")
            if opts["root"] != "top":
                res.cls("root-not-top")
            try:
                got = run_listing(base, opts, drf)
            except Exception as e:
                fail("exception:%s" % type(e).__name__, "lsdrf raised %s: %s (opts %s)" % (type(e).__name__, e, _o(opts)))
                continue
            judge(tree, opts, got, fail)
            if opts.get("cli") and (opts["include_drf"] or opts["include_dmd"]) and not opts.get("start_us") and not opts.get("end_us"):
                # the same listing asked for on the command line (drf ls): same files in the same order
                res.cls("drf-ls-command")
                try:
                    got_cli = run_cli_listing(base, opts, opts["cli"])
                    if got_cli != got:
                        judge(tree, opts, got_cli, lambda sg, d_: fail("cli-" + sg, d_), "drf ls: ")
                        fail("cli-differs-from-api", "drf %s printed %s..., lsdrf returned %s... (opts %s)" % (
                            " ".join(cli_argv("", opts, opts["cli"])[1:]), got_cli[:3], got[:3], _o(opts)))
                except (Exception, SystemExit) as e:
                    fail("cli-exception:%s" % type(e).__name__, "drf %s: %s" % (" ".join(cli_argv("", opts, opts["cli"])[1:]), e))
                if not opts.get("vanish"):
                    # the directory named twice on one command line, paths printed relative to it (no --abs): each argument is
                    # listed in full, one after the other
                    try:
                        import contextlib
                        import io
                        from digital_rf import drf_command
                        root_abs = os.path.join(base, opts["root"])
                        av = [a_ for a_ in cli_argv(base, opts, opts["cli"]) if a_ != "--abs"]
                        av.insert(av.index(root_abs) + 1, root_abs)
                        buf = io.StringIO()
                        with contextlib.redirect_stdout(buf):
                            drf_command.main(av)
                        printed = [ln_ for ln_ in buf.getvalue().splitlines() if ln_]
                        rel_ = [os.path.relpath(os.path.join(base, p_), root_abs) for p_ in got]
                        if printed != rel_ + rel_:
                            fail("cli-two-arguments", "drf ls DIR DIR printed %d lines %s..., expected the listing twice (%d lines)" % (
                                len(printed), printed[:3], 2 * len(rel_)))
                    except (Exception, SystemExit) as e:
                        fail("cli-exception:%s" % type(e).__name__, "drf ls DIR DIR: %s" % e)
            # reversing changes only the order, never the set (no vanish: both runs see the same tree)
            if not opts.get("vanish"):
                o2 = dict(opts, reverse=not opts["reverse"])
                try:
                    got2 = run_listing(base, o2, drf)
                    # the reversed listing is a listing of its own (sound, complete, each file once, ordered) ...
                    judge(tree, o2, got2, lambda sg, d_: fail(sg + ":reversed-twin", d_))
                    # ... and the first question asked once more gets the first answer (the tree has not changed)
                    got3 = run_listing(base, opts, drf)
                    if got3 != got:
                        fail("same-listing-differs-when-repeated", "first %s... again %s... (opts %s)" % (got[:4], got3[:4], _o(opts)))
                    if set(got2) != set(got):
                        fail("reverse-changes-set", "forward-only %s reverse-only %s (opts %s)" % (
                            sorted(set(got if not opts["reverse"] else got2) - set(got2 if not opts["reverse"] else got))[:3],
                            sorted(set(got2 if not opts["reverse"] else got) - set(got if not opts["reverse"] else got2))[:3], _o(opts)))
                except Exception as e:
                    fail("exception:%s" % type(e).__name__, "lsdrf raised %s: %s (opts %s)" % (type(e).__name__, e, _o(o2)))
    res.nontrivial = nt
    if has_empty:
        res.cls("empty-subdir")
    return res


def shrink_candidates(case):
    opts = case["opts"]
    for i in range(len(opts)):
        if len(opts) > 1:
            yield dict(case, opts=[opts[i]])
    tree = case["tree"]
    for i in range(len(tree["children"])):
        if len(tree["children"]) > 1:
            t2 = dict(tree, children=tree["children"][:i] + tree["children"][i + 1:])
            ok = {p for p, _ in L.all_channels(t2)}
            if all(o["root"] in ok or os.path.dirname(o["root"]) in ok for o in opts):
                yield dict(case, tree=t2)
    for o in opts:
        for key, val in (("vanish", None), ("include_drf_properties", None), ("include_dmd_properties", None), ("recursive", True)):
            if o[key] != val:
                yield dict(case, opts=[dict(o, **{key: val})])


def extra(tier, seed, camp):
    """Thorough tier only: coverage-guided campaign (atheris / libFuzzer driving the same Hypothesis strategy and oracle
    through fuzz_one_input, coverage from digital_rf.list_drf)."""
    if tier != "thorough":
        return
    import json
    import shutil
    import subprocess
    import sys
    import tempfile

    from vlib.campaign import VERIF

    if not os.path.isdir(os.path.join(VERIF, ".deps", "atheris")):
        camp.extra_cov["atheris"] = "not installed (setup_cmd installs it into /verif/.deps); engine skipped"
        return
    work = tempfile.mkdtemp(prefix="ath-", dir="/dev/shm" if os.path.isdir("/dev/shm") else None)
    procs = []
    try:
        for i in range(8):
            cdir = os.path.join(work, "corpus%d" % i)
            os.makedirs(cdir)
            resf = os.path.join(work, "res%d.json" % i)
            procs.append((resf, subprocess.Popen(
                [sys.executable, os.path.join(VERIF, "tools", "atheris_c14.py"), resf, "-max_total_time=90", "-max_len=8192",
                 "-len_control=0", "-seed=%d" % (seed * 100 + i + 1), cdir],
                cwd=work, stdout=subprocess.DEVNULL, stderr=subprocess.DEVNULL)))
        total = 0
        for resf, p in procs:
            try:
                p.wait(timeout=400)
            except subprocess.TimeoutExpired:
                p.kill()
            if os.path.exists(resf):
                with open(resf) as f:
                    d = json.load(f)
                total += d["execs"]
                for sig, detail, case in d["failures"]:
                    r = Result()
                    r.fail("atheris:" + sig, detail)
                    camp.record(case, r)
        camp.evaluations += total
        camp.extra_cov["atheris_cases"] = total
        camp.extra_cov["atheris"] = "8 x 90 s libFuzzer campaigns over the Hypothesis strategy (fuzz_one_input), coverage from digital_rf.list_drf"
    finally:
        shutil.rmtree(work, ignore_errors=True)
