"""C06 - self-describing data files and recoverable channel properties (DESIGN.md section 4, C06)."""
from __future__ import annotations

import os
import shutil

import h5py
from hypothesis import strategies as st

from checks import c01
from vlib import rfharness, rfmodel, strategies as S
from vlib.campaign import Result

PID = "C06"
LEVEL = "exploration"
TECHNIQUE = "property-based testing: every produced file inspected raw (structure + attributes), properties regenerated from every file and read back against the reference model"
RULE = (
    "Same generator as C01 (both paths). Every produced data file is opened raw: block index >= 1 row, both columns "
    "strictly increasing from offset 0, no overlap, offsets < data length, all described samples inside the file's "
    "window, data length <= window; 15 channel attributes equal the configuration, uuid/epoch/version present, "
    "init_utc_timestamp constant and within 1 s of the start time, sequence_num 0,1,2.. with file time. Then for "
    "EVERY file a scratch channel holding only that file is regenerated with recreate_properties_file and read back "
    "against the model; the full channel is regenerated and re-read. Non-trivial: a case with a file whose index has "
    ">= 2 rows or that was appended to by >= 2 calls."
)
ASSUMPTIONS = c01.ASSUMPTIONS[:2] + ["init_utc_timestamp is computed in long double by the library; the property says 'the session's start timestamp', so +-1 s is accepted"]
FLOORS = {"nontrivial": 0.25, "start-inexact-in-double": 0.03}

PROP_KEYS = ["H5Tget_class", "H5Tget_size", "H5Tget_order", "H5Tget_precision", "H5Tget_offset", "subdir_cadence_secs",
             "file_cadence_millisecs", "sample_rate_numerator", "sample_rate_denominator", "is_complex",
             "num_subchannels", "is_continuous", "epoch", "digital_rf_time_description", "digital_rf_version"]


def budget(tier):
    return {"examples": 110 if tier == "quick" else 300, "shards": 1 if tier == "quick" else 16,
            "examples2": 200 if tier == "quick" else 120}


def strategy2(tier):
    from checks import c11
    return c11.session_strategy(tier)


def _session_tree(tops, cfg, fail):
    """Second stage: every file left by a multi-session history is inspected on its own; attributes must repeat the
    channel's properties file; per session (uuid) the start timestamp is constant and the sequence number increases with
    file time; the properties regenerated from any single file equal the channel's."""
    drf = rfharness.drf()
    exp = expected_attrs(cfg)
    for t in tops:
        ch = os.path.join(t, "ch0")
        propfile = os.path.join(ch, "drf_properties.h5")
        if not os.path.exists(propfile):
            continue
        orig_props = read_props(propfile)
        files, _ = rfharness.raw_files(ch)
        r2 = Result()
        by_sess = {}
        for rel, info in sorted(files.items()):
            if "error" in info:
                fail("sess-unreadable-file", rel + " " + info["error"])
                continue
            check_structure(cfg, rel, info, r2, ":sessions")
            a = info["attrs"]
            for k, v in exp.items():
                if a.get(k) != v or orig_props.get(k) != v:
                    fail("sess-file-attr-value", "%s %s=%r, channel %r, configured %r" % (rel, k, a.get(k), orig_props.get(k), v))
            ms = int(rel.split("@")[1].split(".")[0]) * 1000 + int(rel.split("@")[1].split(".")[1])
            by_sess.setdefault(a.get("uuid_str"), []).append((ms, a.get("sequence_num"), a.get("init_utc_timestamp"), rel))
        for sig, d in r2.failures:
            fail("sess-" + sig, d)
        for uuid, lst in by_sess.items():
            if not (isinstance(uuid, str) and uuid.startswith("sess")):
                fail("sess-file-uuid", "%r in %s" % (uuid, lst[0][3]))
            lst.sort()
            for (m0, s0, i0, r0), (m1, s1, i1, r1) in zip(lst, lst[1:]):
                if not s1 > s0:
                    fail("sess-sequence-num", "session %s: %s has sequence %r, the later %s has %r" % (uuid, r0, s0, r1, s1))
                if i0 != i1:
                    fail("sess-init-timestamp-varies", "session %s: %s %r, %s %r" % (uuid, r0, i0, r1, i1))
        # regeneration from single files (a few per tree: first, last and one of each session)
        picks = {lst[0][3] for lst in by_sess.values()} | {lst[-1][3] for lst in by_sess.values()}
        for rel in sorted(picks)[:6]:
            one = os.path.join(os.path.dirname(t), "one")
            shutil.rmtree(one, ignore_errors=True)
            os.makedirs(os.path.join(one, "ch0", rel.split("/")[0]))
            shutil.copy(files[rel]["path"], os.path.join(one, "ch0", rel))
            try:
                with rfharness.quiet_fds():
                    drf.recreate_properties_file(os.path.join(one, "ch0"))
                newp = read_props(os.path.join(one, "ch0", "drf_properties.h5"))
                if newp != orig_props:
                    diff = {k: (orig_props.get(k), newp.get(k)) for k in set(orig_props) | set(newp) if orig_props.get(k) != newp.get(k)}
                    fail("sess-regenerated-properties-differ", "%s %r" % (rel, diff))
            except Exception as e:
                fail("sess-regenerate-exception", "%s %s: %s" % (rel, type(e).__name__, e))
            shutil.rmtree(one, ignore_errors=True)


@st.composite
def _cases(draw, tier):
    cfg = draw(S.rf_configs(spf_cap=2048))
    ops = draw(S.write_ops(cfg, max_calls=7 if tier == "quick" else 10, max_files=3))
    m = rfmodel.Model(cfg)
    for op in ops:
        m.apply(op)
    reads = draw(S.read_ranges(m, 4))
    return {"cfg": cfg, "ops": ops, "reads": reads, "path": draw(st.sampled_from(["py", "py", "c"]))}


def strategy(tier):
    return _cases(tier)


def directed_cases(tier):
    """Start indices above 2^53 a few samples around a whole second (the embedded start timestamp must be exact)."""
    out = []
    for n, t in ((25000000, 1700000001), (10000000, 1800000000), (100000000, 2000000003)):
        for delta in (3, 2, 1, 0, -1):
            cfg = {"kind": "i", "size": 2, "order": "<", "cplx": 0, "form": "struct", "nsub": 1, "n": n, "d": 1, "F": 1, "S": 1,
                   "cont": 0, "comp": 0, "checksum": 0, "salt": 3, "uuid": "verif", "start": t * n - delta}
            out.append({"cfg": cfg, "ops": [{"op": "w", "idx": 0, "len": 7}], "reads": [[t * n - 5, t * n + 5]],
                        "path": "py" if delta % 2 else "c"})
    return out


def expected_attrs(cfg):
    return {
        "H5Tget_class": 1 if cfg["kind"] == "f" else 0,
        "H5Tget_size": cfg["size"],
        "H5Tget_order": 1 if cfg["order"] == ">" else 0,
        "H5Tget_precision": 8 * cfg["size"],
        "H5Tget_offset": 0,
        "subdir_cadence_secs": cfg["S"],
        "file_cadence_millisecs": cfg["F"],
        "sample_rate_numerator": cfg["n"],
        "sample_rate_denominator": cfg["d"],
        "is_complex": cfg["cplx"],
        "num_subchannels": cfg["nsub"],
        "is_continuous": cfg["cont"],
        "epoch": "1970-01-01T00:00:00Z",
    }


def read_props(path):
    out = {}
    with h5py.File(path, "r") as f:
        for k, v in f.attrs.items():
            try:
                v = v.item()
            except AttributeError:
                pass
            if isinstance(v, bytes):
                v = v.decode("ascii", "replace")
            out[k] = v
    return out


def check_structure(cfg, rel, info, res, tag):
    rows = info["index"]
    stamp = None
    fn = rel.split("/")[1]
    sec, msec = fn[3:-3].split(".")
    stamp = int(sec) * 1000 + int(msec)
    lo, hi = rfmodel.window(cfg, stamp)
    if len(rows) < 1 or info["index_shape"][1:] != (2,):
        res.fail("index-empty" + tag, "%s index shape %r" % (rel, info["index_shape"]))
        return
    if rows[0][1] != 0:
        res.fail("index-first-offset" + tag, "%s first offset %d" % (rel, rows[0][1]))
    for i in range(1, len(rows)):
        if rows[i][0] <= rows[i - 1][0]:
            res.fail("index-not-increasing" + tag, "%s rows %r %r" % (rel, rows[i - 1], rows[i]))
        if rows[i][1] <= rows[i - 1][1]:
            res.fail("offset-not-increasing" + tag, "%s rows %r %r" % (rel, rows[i - 1], rows[i]))
        if rows[i][0] - rows[i - 1][0] < rows[i][1] - rows[i - 1][1]:
            res.fail("index-overlap" + tag, "%s rows %r %r" % (rel, rows[i - 1], rows[i]))
    if rows[-1][1] >= info["data_len"]:
        res.fail("offset-past-data" + tag, "%s last offset %d data %d" % (rel, rows[-1][1], info["data_len"]))
    for s, ln in rfharness.stored_ranges(info):
        if ln > 0 and (s < lo or s + ln > hi):
            res.fail("sample-outside-window" + tag, "%s range (%d,%d) window [%d,%d)" % (rel, s, ln, lo, hi))
    if info["data_len"] > hi - lo:
        res.fail("data-longer-than-window" + tag, "%s %d > %d" % (rel, info["data_len"], hi - lo))
    if cfg["cont"] and not rfmodel.chunked(cfg) and info["data_len"] != hi - lo:
        res.fail("continuous-not-full" + tag, "%s %d != %d" % (rel, info["data_len"], hi - lo))
    if info["shape"][1:] != (cfg["nsub"],):
        res.fail("data-shape" + tag, "%s %r" % (rel, info["shape"]))


def run_case(case):
    if case.get("kind") == "sessions":
        from checks import c11
        return c11.run_sessions(case, ("sess-",), _session_tree)
    res = Result()
    cfg = case["cfg"]
    tag = ":" + case["path"]
    m = c01.build_model(case)
    with rfharness.scratch("c06") as top:
        for f in c01.execute(case, top):
            res.fail(*f)
        if res.failures:
            return res
        ch = os.path.join(top, "ch0")
        files, _ = rfharness.raw_files(ch)
        exp = expected_attrs(cfg)
        propfile = os.path.join(ch, "drf_properties.h5")
        orig_props = read_props(propfile)
        for k in PROP_KEYS:
            if k not in orig_props:
                res.fail("properties-missing-key" + tag, k)
        for k, v in exp.items():
            if orig_props.get(k) != v:
                res.fail("properties-value" + tag, "%s=%r expected %r" % (k, orig_props.get(k), v))
        init_ts = None
        start_s = cfg["start"] * cfg["d"] // cfg["n"]
        seqs = []
        nontrivial_files = 0
        for rel, info in sorted(files.items(), key=lambda kv: kv[0]):
            if "error" in info:
                res.fail("unreadable-file" + tag, rel + " " + info["error"])
                continue
            res.evaluations += 1
            check_structure(cfg, rel, info, res, tag)
            a = info["attrs"]
            for k, v in exp.items():
                if a.get(k) != v:
                    res.fail("file-attr-value" + tag, "%s %s=%r expected %r" % (rel, k, a.get(k), v))
            for k in PROP_KEYS + ["uuid_str", "init_utc_timestamp", "sequence_num", "computer_time"]:
                if k not in a:
                    res.fail("file-attr-missing" + tag, "%s %s" % (rel, k))
            if a.get("uuid_str") != cfg.get("uuid", "verif"):
                res.fail("file-uuid" + tag, "%s %r" % (rel, a.get("uuid_str")))
            if a.get("digital_rf_version") != orig_props.get("digital_rf_version") or not a.get("digital_rf_version"):
                res.fail("file-version" + tag, "%s %r" % (rel, a.get("digital_rf_version")))
            if a.get("digital_rf_time_description") != orig_props.get("digital_rf_time_description"):
                res.fail("file-time-description" + tag, rel)
            if init_ts is None:
                init_ts = a.get("init_utc_timestamp")
                # the library divides in long double: provably exact for integer rates below 2^31 (the quotient is
                # correctly rounded and at least 1/n away from the next integer); otherwise +-1 s is accepted
                tol = 0 if (cfg["d"] == 1 and cfg["n"] < 2 ** 31) else 1
                if init_ts is None or abs(init_ts - start_s) > tol:
                    res.fail("init-timestamp" + tag, "%s init %r start second %d (rate %d/%d, start index %d)" % (
                        rel, init_ts, start_s, cfg["n"], cfg["d"], cfg["start"]))
            elif a.get("init_utc_timestamp") != init_ts:
                res.fail("init-timestamp-varies" + tag, rel)
            seqs.append(a.get("sequence_num"))
            ms = int(rel.split("@")[1].split(".")[0]) * 1000 + int(rel.split("@")[1].split(".")[1])
            ncalls = len({r[2] for r in m.written_indices_in_file(ms)})
            if len(info["index"]) >= 2 or ncalls >= 2:
                nontrivial_files += 1
        # files sorted by relpath = by time (directory and file stamps are zero padded / same width here)
        order = sorted(files, key=lambda r: (int(r.split("@")[1].split(".")[0]), int(r.split("@")[1].split(".")[1])))
        seq_by_time = [files[r]["attrs"].get("sequence_num") for r in order if "attrs" in files[r]]
        if seq_by_time != list(range(len(seq_by_time))):
            res.fail("sequence-num" + tag, "sequence numbers by file time: %r" % (seq_by_time[:10],))
        res.nontrivial = nontrivial_files > 0
        if nontrivial_files:
            res.cls("multirow-or-appended")
        if case["path"] == "c":
            res.cls("cpath")
        if float(cfg["start"]) != cfg["start"]:
            res.cls("start-inexact-in-double")
        if res.failures:
            return res
        # ---- regeneration from every single file
        drf = rfharness.drf()
        for rel in order:
            info = files[rel]
            one = os.path.join(top, "one")
            shutil.rmtree(one, ignore_errors=True)
            sub = rel.split("/")[0]
            os.makedirs(os.path.join(one, "ch0", sub))
            shutil.copy(info["path"], os.path.join(one, "ch0", rel))
            try:
                with rfharness.quiet_fds():
                    drf.recreate_properties_file(os.path.join(one, "ch0"))
                newp = read_props(os.path.join(one, "ch0", "drf_properties.h5"))
            except Exception as e:
                res.fail("regenerate-exception" + tag, "%s %s: %s" % (rel, type(e).__name__, e))
                continue
            if newp != orig_props:
                diff = {k: (orig_props.get(k), newp.get(k)) for k in set(orig_props) | set(newp) if orig_props.get(k) != newp.get(k)}
                res.fail("regenerated-properties-differ" + tag, "%s %r" % (rel, diff))
                continue
            ms = int(rel.split("@")[1].split(".")[0]) * 1000 + int(rel.split("@")[1].split(".")[1])
            lo, hi = rfmodel.window(cfg, ms)
            try:
                with rfharness.quiet_fds():
                    rd = drf.DigitalRFReader(one)
                got = rfharness.read_blocks(rd, max(0, lo - 3), hi + 2, "ch0")
                rd.close()
            except Exception as e:
                res.fail("regenerated-read-exception" + tag, "%s %s: %s" % (rel, type(e).__name__, e))
                continue
            expb = m.expected_blocks(lo, hi - 1)
            if len(got) != len(expb):
                res.fail("regenerated-read-blocks" + tag, "%s got %r expected %r" % (rel, [int(k) for k, _ in got], [e[0] for e in expb]))
                continue
            for (k, arr), e in zip(got, expb):
                msg = rfmodel.compare_block(cfg, e, int(k), arr)
                if msg:
                    res.fail("regenerated-read-value" + tag, rel + " " + msg)
                    break
            res.evaluations += 1
        shutil.rmtree(os.path.join(top, "one"), ignore_errors=True)
        # ---- regeneration of the full channel
        os.unlink(propfile)
        try:
            with rfharness.quiet_fds():
                drf.recreate_properties_file(ch)
            if read_props(propfile) != orig_props:
                res.fail("regenerated-properties-differ" + tag, "full channel")
            with rfharness.quiet_fds():
                rd = drf.DigitalRFReader(top)
            for a, e in case["reads"]:
                f = rfharness.check_read(cfg, m, rd, "ch0", a, e)
                if f:
                    res.fail("regenerated-full-" + f[0] + tag, f[1])
                    break
            rd.close()
        except Exception as e:
            res.fail("regenerate-exception" + tag, "full channel %s: %s" % (type(e).__name__, e))
    return res


def shrink_candidates(case):
    if case.get("kind") == "sessions":
        from checks import c11
        return c11.session_shrink(case)
    return c01.shrink_candidates(case)
