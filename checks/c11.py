"""C11 - multi-session and multi-directory continuity without overwrite (DESIGN.md section 4, C11)."""
from __future__ import annotations

import os

import numpy as np
from hypothesis import strategies as st

from vlib import rfharness, rfmodel, strategies as S, treeutil
from vlib.campaign import Result

PID = "C11"
LEVEL = "exploration"
TECHNIQUE = "stateful property-based testing: generated session histories (open / write / conflicting write / retry / later write / close / mismatched re-open / read) over 1-3 top-level directories against a union model; SHA-256 of every finalized file re-checked after every step"
RULE = (
    "Histories of 6-20 (thorough: up to 40) steps over 1-3 top-level directories holding the same channel: sessions "
    "opened with fresh UUIDs at starts later than, earlier than or inside recorded periods; valid writes (never the "
    "same file period in two directories); writes into a file period finalized by an earlier session of the same "
    "directory (single-file, and multi-file whose first files are free), retries of the refused period, writes to a "
    "later free period; close; re-open with one of the 12 compared parameters changed; reads through one reader over "
    "all directories. Oracle: union model at sample-index level (definite samples must be present with their values, "
    "returned samples must be definite or the free prefix of a refused multi-file call), bounds coherent with it; a "
    "mismatched open raises and leaves the directory snapshot identical; a conflicting write raises; EVERY finalized "
    "file keeps its SHA-256 after EVERY step; after any number of refusals a write into a later free period succeeds "
    "and reads back. Sessions also start in the last file periods of the subdirectory BEFORE one that exists and write across "
    "the boundary (into a free or a finalized period); get_continuous_blocks must be in index order, disjoint and maximal and "
    "equal the blocks of read(); read_vector_raw inside a block equals read(); the mismatch list includes the same rate written "
    "as a different fraction (2n/2d). Non-trivial: a restart landing inside or before existing data, or a refusal followed by a later "
    "valid write."
    ' Environment of a history: channel path length (150-600 characters) and grammar-like directory names, current directory inside the channel / top directory, relative and decorated path spellings (with a change of directory before reads), one reader kept open over the whole history (polling queries), refused calls repeated 40 times with few file descriptors to spare, finalized files turned into symbolic links, the properties file regenerated or emptied between sessions.'
)
RULE += " Since rounds 7-8: permission bits on earlier sessions' files (0444 / 0200 / 0000, enforced because the check drops root's override), the same path string objects handed to every session (absolute with a trailing slash), vector reads over stretches written without a gap, a recording continued on a second directory in the middle of a file period."
ASSUMPTIONS = ["one session is open at a time", "overlay build against system HDF5 1.10.8"]
FLOORS = {"nontrivial": 0.25}
MISMATCH = ["kind", "size", "order", "S", "F", "n", "d", "cplx", "nsub", "cont", "nd-equiv", "nd-equiv", "F+emptied-properties", "n+emptied-properties"]


def budget(tier):
    return {"examples": 300 if tier == "quick" else 700, "shards": 1 if tier == "quick" else 16}


def stamps_of(cfg, start, op):
    """Ordered list of file stamps touched by a (relative) op of a session starting at ``start``."""
    runs = []
    if op["op"] == "w":
        if op["len"] > 0:
            runs.append((start + op["idx"], op["len"]))
    else:
        for i, g in enumerate(op["g"]):
            ln = (op["d"][i + 1] if i + 1 < len(op["g"]) else op["len"]) - op["d"][i]
            runs.append((start + g, ln))
    out = []
    for s, ln in runs:
        ms = rfmodel.file_ms(cfg, s)
        last = rfmodel.file_ms(cfg, s + ln - 1)
        while ms <= last:
            lo, hi = rfmodel.window(cfg, ms)
            # (at rates below one sample per file period most periods hold no sample and get no file)
            if hi > lo and lo < s + ln and hi > s and (not out or out[-1] != ms):
                out.append(ms)
            ms += cfg["F"]
    return out


@st.composite
def histories(draw, tier):
    cfg = draw(S.rf_configs(spf_cap=64, boundary_p=0.5))
    cfg["comp"] = 0
    cfg["checksum"] = 0
    spf = rfmodel.samples_per_file_max(cfg)
    ndirs = draw(st.integers(1, 3))
    nsteps = draw(st.integers(6, 20 if tier == "quick" else 40))
    taken = {}  # stamp -> dir index
    steps = []
    sess = None  # dict(dir,start,next,cur)
    base = cfg["start"]
    nsess = 0
    cid = 0
    pending_retry = None

    def free_later_start():
        hi = max(taken) if taken else rfmodel.file_ms(cfg, base)
        ms = hi + cfg["F"] * draw(st.integers(1, 3))
        return rfmodel.first_sample(cfg, ms) + draw(st.sampled_from([0, 0, 1, spf // 2]))

    for _ in range(nsteps):
        if sess is None:
            kind = draw(st.sampled_from(["open"] * 10 + ["mismatch", "mismatch", "read", "read", "linkify", "regen"]))
            if kind in ("mismatch", "linkify", "regen") and not taken:
                kind = "open"
            if kind == "open":
                d = draw(st.integers(0, ndirs - 1))
                mode = draw(st.sampled_from(["later", "later", "earlier", "inside", "inside", "subdir-before", "subdir-before", "subdir-before"])) if taken else "first"
                cross = None
                if mode == "subdir-before":
                    # start in the last file period(s) of the subdirectory preceding one that an earlier session created,
                    # so that this session ENTERS an existing subdirectory (at a free or at a finalized file period)
                    subs = sorted({(ms // 1000) // cfg["S"] * cfg["S"] for ms in taken})
                    free_first = [x for x in subs if x * 1000 not in taken]
                    D = draw(st.sampled_from(free_first if free_first and draw(st.integers(0, 3)) else subs))
                    ms0 = D * 1000 - cfg["F"] * draw(st.integers(1, 2))
                    if ms0 < 0 or ms0 in taken or (ms0 // 1000) // cfg["S"] * cfg["S"] == D:
                        mode = "earlier"
                    else:
                        start = rfmodel.first_sample(cfg, ms0) + draw(st.sampled_from([0, 1, spf // 2]))
                        cross = D
                if mode == "first":
                    start = base
                elif mode == "later":
                    start = free_later_start()
                elif mode == "earlier":
                    lo = min(taken)
                    start = max(0, rfmodel.first_sample(cfg, lo - cfg["F"] * draw(st.integers(2, 6))) + draw(st.sampled_from([0, 1, 3])))
                elif mode == "inside":
                    stamp = draw(st.sampled_from(sorted(taken)))
                    lo_, hi_ = rfmodel.window(cfg, stamp)
                    start = draw(st.integers(lo_, hi_ - 1))
                sess = {"dir": d, "start": start, "next": 0, "cur": None, "mode": mode, "cross": cross}
                nsess += 1
                steps.append({"s": "open", "dir": d, "start": start, "salt": 1000 + nsess, "uuid": "sess%d" % nsess, "mode": mode})
            elif kind == "mismatch":
                dirs_with = sorted(set(taken.values()))
                steps.append({"s": "mismatch", "dir": draw(st.sampled_from(dirs_with)), "param": draw(st.sampled_from(MISMATCH))})
            elif kind == "regen":
                # the channel's properties file is lost and regenerated from the data files; everything goes on as before
                steps.append({"s": "regen", "dir": draw(st.sampled_from(sorted(set(taken.values()))))})
            elif kind == "linkify":
                # what `drf ln --symbolic` / moving data to another disk and linking it back leaves: the finalized files of
                # a channel directory become symbolic links to their content
                steps.append({"s": "linkify", "dir": draw(st.sampled_from(sorted(set(taken.values()))))})
            else:
                steps.append({"s": "read"})
            continue
        if sess.get("refused"):
            # after a refusal: retry the same period, go to a later free period, or give up
            kind = draw(st.sampled_from(["retry", "retry", "later", "later", "later", "conflict", "close", "read", "write", "write"]))
        else:
            kind = draw(st.sampled_from(["write"] * 5 + ["conflict", "conflict", "later", "close", "close", "read"]))
        if kind == "retry" and pending_retry is None:
            kind = "write"
        if kind == "close":
            steps.append({"s": "close"})
            sess = None
            pending_retry = None
            continue
        if kind == "read":
            steps.append({"s": "read"})
            continue
        if kind == "retry":
            op = dict(pending_retry, cid=cid)
            cid += 1
            steps.append({"s": "write", "op": op, "expect": "refused", "prefix": 0, "retry": True})
            sess["refused"] = True
            sess["cur"] = None
            continue
        if kind == "later":
            idx = free_later_start() - sess["start"]
            if idx < sess["next"]:
                continue
            op = {"op": "w", "idx": idx, "len": draw(st.sampled_from([1, spf, spf + 3])), "cid": cid}
        elif kind == "conflict":
            # aim at a finalized period of this directory that lies ahead
            ahead = [ms for ms, dd in taken.items() if dd == sess["dir"] and ms != sess["cur"]
                     and rfmodel.window(cfg, ms)[1] - 1 >= sess["start"] + sess["next"]]
            if not ahead:
                continue
            ms = draw(st.sampled_from(sorted(ahead)))
            lo_, hi_ = rfmodel.window(cfg, ms)
            tgt = draw(st.integers(max(lo_, sess["start"] + sess["next"]), hi_ - 1)) - sess["start"]
            if draw(st.integers(0, 1)):
                op = {"op": "w", "idx": tgt, "len": draw(st.sampled_from([1, 2, spf])), "cid": cid}
            else:
                # multi-file call beginning before the taken period
                b = max(sess["next"], tgt - draw(st.integers(1, 2 * spf)))
                op = {"op": "w", "idx": b, "len": tgt - b + draw(st.integers(1, spf)), "cid": cid}
        elif sess.get("cross") is not None and draw(st.integers(0, 9)) < 8:
            # one contiguous write from the current position over the subdirectory boundary
            tgt_end = rfmodel.first_sample(cfg, sess["cross"] * 1000) + draw(st.sampled_from([1, max(1, spf // 2), spf, spf + 1]))
            ln = tgt_end - (sess["start"] + sess["next"])
            sess["cross"] = None
            if ln <= 0 or ln > 6 * spf + 8:
                continue
            op = {"op": "w", "idx": sess["next"], "len": ln, "cid": cid, "cross": 1}
        else:
            op, _ = S.draw_op(draw, cfg, sess["next"], allow_blocks=not cfg["cont"], max_files=3)
            op["cid"] = cid
        cid += 1
        touched = stamps_of(cfg, sess["start"], op)
        if not touched:
            continue
        bad_other = [ms for ms in touched if ms in taken and taken[ms] != sess["dir"]]
        if bad_other:
            continue  # the same file period in two directories: outside the domain
        conflict = [ms for ms in touched if ms in taken and not (ms == sess["cur"])]
        if not conflict:
            for ms in touched:
                taken[ms] = sess["dir"]
            sess["cur"] = touched[-1]
            end = op["idx"] + op["len"] if op["op"] == "w" else op["g"][-1] + op["len"] - op["d"][-1]
            sess["next"] = end
            steps.append({"s": "write", "op": op, "expect": "ok"})
            pending_retry = None
            sess["refused"] = False
        else:
            first_bad = min(conflict)
            # samples in files before the first taken one may or may not have been written
            prefix_stamps = [ms for ms in touched if ms < first_bad]
            if op["op"] != "w":
                # keep refused calls simple: single contiguous writes only
                continue
            pre_end = 0
            if prefix_stamps:
                pre_end = rfmodel.window(cfg, prefix_stamps[-1])[1] - sess["start"]
                for ms in prefix_stamps:
                    taken[ms] = sess["dir"]
                sess["cur"] = None
                sess["next"] = max(sess["next"], pre_end)
            steps.append({"s": "write", "op": op, "expect": "refused", "prefix": max(0, pre_end - op["idx"]) if prefix_stamps else 0})
            pending_retry = {k: v for k, v in op.items() if k != "cid"} if not prefix_stamps else None
            sess["refused"] = True
            sess["cur"] = None  # the refused call has finalized the file this session had open: its period is taken now
    if sess is not None:
        steps.append({"s": "close"})
    steps.append({"s": "read"})
    # the environment of the recording process (none of it is mentioned by the property, so none of it may matter):
    # length of the channel path, current directory, relative / decorated path spellings, a reader that stays open over
    # the whole history, refused calls repeated many times with few file descriptors to spare
    env = {
        "pad": draw(st.sampled_from([0, 0, 0, 0, 150, 300, 600, "odd", "odd"])),  # "odd": names containing pieces of the file-name grammar
        "cwd": draw(st.sampled_from([None, None, None, "chan", "chan", "top", "rel", "rel-dot", "slash"])),
        "keep_reader": draw(st.booleans()),
        "repeat": draw(st.sampled_from([1, 1, 1, 2, 40])),
        # permission bits of the data files of earlier sessions while a later session records: as written / read-only
        # archive / not readable by the recording account / no access at all (the check runs without root's override)
        "perm": draw(st.sampled_from([None, None, None, 0o444, 0o200, 0])),
    }
    return {"cfg": cfg, "ndirs": ndirs, "steps": steps, "env": env}


def strategy(tier):
    return histories(tier)


def directed_cases(tier):
    """Three sessions over two top-level directories: the directory listed FIRST holds the middle of the recording, the one
    listed second its beginning and its end (and the mirror image), read through one reader."""
    out = []
    for cont in (0, 1):
        cfg = {"kind": "i", "size": 2, "order": "<", "cplx": 0, "form": "struct", "nsub": 1, "n": 100, "d": 1, "F": 1000, "S": 10,
               "cont": cont, "comp": 0, "checksum": 0, "salt": 5, "uuid": "verif", "start": 150000000000}
        b = cfg["start"]
        for dirs in ((0, 1, 1), (1, 0, 0), (0, 1, 0)):
            steps = []
            for j, (d, st0, ln) in enumerate(zip(dirs, (b + 1000, b, b + 3000), (150, 120, 130))):
                steps += [{"s": "open", "dir": d, "start": st0, "salt": 2000 + j, "uuid": "sess%d" % (j + 1), "mode": "later" if j != 1 else "earlier"},
                          {"s": "write", "op": {"op": "w", "idx": 0, "len": ln, "cid": j}, "expect": "ok"}, {"s": "close"}, {"s": "read"}]
            out.append({"cfg": cfg, "ndirs": 2, "steps": steps})
        # a recording continued on a second disk in the middle of a file period: the directory listed FIRST holds the newer
        # half, and the two halves are one gap-free stretch (one block, one vector read)
        # (gapped mode: a continuous-mode file claims every slot of its period, so two directories cannot share a period)
        for dirs in ((1, 0), (0, 1)) if not cont else ():
            steps = []
            for j, (d, st0, ln) in enumerate(zip(dirs, (b + 20, b + 270), (250, 180))):
                steps += [{"s": "open", "dir": d, "start": st0, "salt": 2500 + j, "uuid": "sess6%d" % (j + 1), "mode": "later"},
                          {"s": "write", "op": {"op": "w", "idx": 0, "len": ln, "cid": j}, "expect": "ok"}, {"s": "close"}, {"s": "read"}]
            out.append({"cfg": cfg, "ndirs": 2, "steps": steps})
        # one reader stays open while later sessions create the NEXT subdirectory (which the reader has already looked for,
        # in vain, when it read ahead) and an EARLIER one
        steps = []
        for j, (st0, ln, mode) in enumerate(((b + 700, 250, "first"), (b + 1000, 300, "later"), (b - 2000, 150, "earlier"), (b + 2500, 40, "later"))):
            steps += [{"s": "open", "dir": 0, "start": st0, "salt": 3000 + j, "uuid": "sess7%d" % (j + 1), "mode": mode},
                      {"s": "write", "op": {"op": "w", "idx": 0, "len": ln, "cid": j}, "expect": "ok"}, {"s": "read"}, {"s": "close"}, {"s": "read"}]
        out.append({"cfg": cfg, "ndirs": 1, "steps": steps, "env": {"pad": 0, "cwd": None, "keep_reader": True, "repeat": 1}})
        # a later session starts before the recorded data and runs into it: refused (also when repeated), then continues in a
        # free period - in each environment that must not matter: long channel paths, current directory inside the channel,
        # relative path spellings, finalized files that have become symbolic links, many repetitions with few descriptors
        for env, link in (({"pad": 0}, False), ({"perm": 0o444}, False), ({"perm": 0o200}, False), ({"perm": 0}, False), ({"pad": 300}, False), ({"pad": 600}, False), ({"cwd": "chan"}, False), ({"cwd": "rel-dot"}, False), ({"cwd": "slash"}, False),
                          ({"cwd": "top", "keep_reader": True}, False), ({"repeat": 40, "keep_reader": True}, False), ({"pad": 150}, True)):
            steps = [{"s": "open", "dir": 0, "start": b + 1000, "salt": 4001, "uuid": "sess81", "mode": "first"},
                     {"s": "write", "op": {"op": "w", "idx": 0, "len": 150, "cid": 0}, "expect": "ok"}, {"s": "close"}, {"s": "read"}]
            if link:
                steps.append({"s": "linkify", "dir": 0})
            steps += [{"s": "open", "dir": 0, "start": b + 900, "salt": 4002, "uuid": "sess82", "mode": "earlier"},
                      {"s": "write", "op": {"op": "w", "idx": 0, "len": 50, "cid": 1}, "expect": "ok"},
                      {"s": "write", "op": {"op": "w", "idx": 100, "len": 20, "cid": 2}, "expect": "refused", "prefix": 0},
                      {"s": "write", "op": {"op": "w", "idx": 100, "len": 20, "cid": 3}, "expect": "refused", "prefix": 0, "retry": True},
                      {"s": "read"},
                      {"s": "write", "op": {"op": "w", "idx": 600, "len": 30, "cid": 4}, "expect": "ok"}, {"s": "close"}, {"s": "read"}]
            e = {"pad": 0, "cwd": None, "keep_reader": False, "repeat": 1}
            e.update(env)
            out.append({"cfg": cfg, "ndirs": 1, "steps": steps, "env": e})
        # a write that is refused because it lies AHEAD (in a later subdirectory that an earlier session recorded), then a
        # valid write in between
        steps = [{"s": "open", "dir": 0, "start": b + 3000, "salt": 5001, "uuid": "sess91", "mode": "first"},
                 {"s": "write", "op": {"op": "w", "idx": 0, "len": 100, "cid": 0}, "expect": "ok"}, {"s": "close"},
                 {"s": "open", "dir": 0, "start": b, "salt": 5002, "uuid": "sess92", "mode": "earlier"},
                 {"s": "write", "op": {"op": "w", "idx": 0, "len": 50, "cid": 1}, "expect": "ok"},
                 {"s": "write", "op": {"op": "w", "idx": 3000, "len": 10, "cid": 2}, "expect": "refused", "prefix": 0},
                 {"s": "write", "op": {"op": "w", "idx": 1200, "len": 50, "cid": 3}, "expect": "ok"},
                 {"s": "write", "op": {"op": "w", "idx": 1990, "len": 30, "cid": 4}, "expect": "ok"}, {"s": "close"}, {"s": "read"}]
        out.append({"cfg": cfg, "ndirs": 1, "steps": steps, "env": {"pad": 0, "cwd": None, "keep_reader": False, "repeat": 1}})
        # a recording that begins at sample index 0 (the epoch itself), in the directory listed first / second
        c0 = dict(cfg, start=0)
        for dirs in ((0, 1), (1, 0)):
            steps = [{"s": "open", "dir": dirs[0], "start": 0, "salt": 7001, "uuid": "sess94", "mode": "first"},
                     {"s": "write", "op": {"op": "w", "idx": 0, "len": 200, "cid": 0}, "expect": "ok"}, {"s": "close"},
                     {"s": "open", "dir": dirs[1], "start": 300, "salt": 7002, "uuid": "sess95", "mode": "later"},
                     {"s": "write", "op": {"op": "w", "idx": 0, "len": 200, "cid": 1}, "expect": "ok"}, {"s": "close"}, {"s": "read"}]
            out.append({"cfg": c0, "ndirs": 2, "steps": steps, "env": {"pad": 0, "cwd": None, "keep_reader": False, "repeat": 1}})
        # a second directory whose session has not finalized a file yet (reads while it is open); the properties file of
        # the first directory regenerated between two sessions
        steps = [{"s": "open", "dir": 0, "start": b, "salt": 8001, "uuid": "sess96", "mode": "first"},
                 {"s": "write", "op": {"op": "w", "idx": 0, "len": 150, "cid": 0}, "expect": "ok"}, {"s": "close"}, {"s": "read"},
                 {"s": "open", "dir": 1, "start": b + 1000, "salt": 8002, "uuid": "sess97", "mode": "later"}, {"s": "read"},
                 {"s": "write", "op": {"op": "w", "idx": 0, "len": 40, "cid": 1}, "expect": "ok"}, {"s": "read"}, {"s": "close"}, {"s": "read"},
                 {"s": "regen", "dir": 0},
                 {"s": "open", "dir": 0, "start": b + 3000, "salt": 8003, "uuid": "sess98", "mode": "later"},
                 {"s": "write", "op": {"op": "w", "idx": 0, "len": 60, "cid": 2}, "expect": "ok"}, {"s": "close"},
                 {"s": "mismatch", "dir": 0, "param": "cont"}, {"s": "mismatch", "dir": 0, "param": "S"}, {"s": "read"}]
        out.append({"cfg": cfg, "ndirs": 2, "steps": steps, "env": {"pad": 0, "cwd": None, "keep_reader": False, "repeat": 1}})
        # every kind of parameter mismatch against a channel that holds data
        steps = [{"s": "open", "dir": 0, "start": b, "salt": 6001, "uuid": "sess93", "mode": "first"},
                 {"s": "write", "op": {"op": "w", "idx": 0, "len": 250, "cid": 0}, "expect": "ok"}, {"s": "close"}]
        steps += [{"s": "mismatch", "dir": 0, "param": pm} for pm in sorted(set(MISMATCH))] + [{"s": "read"}]
        out.append({"cfg": cfg, "ndirs": 1, "steps": steps, "env": {"pad": 0, "cwd": None, "keep_reader": False, "repeat": 1}})
        # eighty sessions in a row in one process, each recording one file, with two dozen descriptors to spare: a session
        # that leaves a handle behind makes a later one fail
        steps = []
        for j in range(80):
            steps += [{"s": "open", "dir": 0, "start": b + 1000 * j, "salt": 9000 + j, "uuid": "sessL%d" % j, "mode": "later" if j else "first"},
                      {"s": "write", "op": {"op": "w", "idx": 0, "len": 20, "cid": j}, "expect": "ok"}, {"s": "close"}]
        out.append({"cfg": cfg, "ndirs": 1, "steps": steps + [{"s": "read"}], "env": {"pad": 0, "cwd": None, "keep_reader": False, "repeat": 1, "lowfd": True}})
        # ... and the emptied-properties variants as the FIRST attempt of the process on that channel (an earlier refused
        # attempt leaves the properties file open inside the HDF5 library, which then answers from memory)
        for pm in ("F+emptied-properties", "n+emptied-properties"):
            out.append({"cfg": cfg, "ndirs": 1, "steps": steps[:3] + [{"s": "mismatch", "dir": 0, "param": pm}, {"s": "read"}],
                        "env": {"pad": 0, "cwd": None, "keep_reader": False, "repeat": 1}})
    return out


def directed_sessions(tier):
    """The directed session histories, for the checks that judge them with their own clauses (second stage)."""
    return [dict(c, kind="sessions") for c in directed_cases(tier)]


# ------------------------------------------------------------------ reuse by other checks (their "second stage")
STAGE2_TEXT = ("multi-session histories of checks/c11.py (restart later / earlier / inside recorded periods, conflicting "
               "writes, 1-3 top-level directories) judged only with this property's own clauses")


def session_strategy(tier):
    return histories(tier).map(lambda h: dict(h, kind="sessions"))


def run_sessions(case, keep, on_tree=None):
    res = run_case(case, keep=keep, on_tree=on_tree)
    res.cls("sessions")
    return res


def session_shrink(case):
    for c in shrink_candidates(case):
        yield dict(c, kind="sessions")


def mismatched(cfg, param):
    c = dict(cfg)
    if param == "kind":
        c["kind"] = "f" if cfg["kind"] != "f" else "i"
        if c["kind"] == "f" and c["size"] not in (4, 8):
            c["size"] = 4
            # size changes too; still a single *declared* parameter class change (type class)
    elif param == "size":
        c["size"] = {1: 2, 2: 4, 4: 8, 8: 4}[cfg["size"]]
    elif param == "order":
        if cfg["size"] == 1:
            c["size"] = 2
        c["order"] = ">" if cfg["order"] == "<" else "<"
        if c["cplx"] and c["kind"] == "f":
            c["form"] = "struct"  # a numpy complex dtype loses its byte order in DigitalRFWriter (see strategies.rf_configs)
    elif param == "S":
        c["S"] = cfg["S"] * 2
    elif param == "F":
        c["F"] = cfg["F"] * 2
        c["S"] = cfg["S"] * 2
    elif param == "n":
        c["n"] = cfg["n"] + 1
    elif param == "d":
        c["d"] = cfg["d"] + 1
    elif param == "cplx":
        c["cplx"] = 1 - cfg["cplx"]
    elif param == "nsub":
        c["nsub"] = cfg["nsub"] + 1
    elif param == "cont":
        c["cont"] = 1 - cfg["cont"]
    elif param == "nd-equiv":
        # the same rate written as a different fraction: numerator and denominator both differ from the stored ones
        k = 2 if cfg["n"] * 2 < 2 ** 32 else None
        if k is None:
            c["n"] = cfg["n"] + 1
        else:
            c["n"], c["d"] = cfg["n"] * k, cfg["d"] * k
    return c


def final_hashes(tops):
    import hashlib
    out = {}
    for t in tops:
        snap = treeutil.snapshot(t)
        for rel, v in snap.items():
            if os.path.basename(rel).startswith("tmp."):
                continue
            if v[0] == "f":
                out[os.path.join(t, rel)] = v[2]
            elif v[0] == "l" and os.path.isfile(os.path.join(t, rel)):
                # a finalized file that was turned into a symbolic link (step "linkify"): its content counts
                with open(os.path.join(t, rel), "rb") as f:
                    out[os.path.join(t, rel)] = hashlib.sha256(f.read()).hexdigest()
    return out


class _Stop(Exception):
    """The history cannot be judged any further (the state after a wrongly accepted / refused call is undefined)."""


def run_case(case, keep=None, on_tree=None):
    """Run one session history.  ``keep``: tuple of signature prefixes to report (other checks reuse these histories
    for their own clauses - see sessions_for()); ``on_tree(tops, cfg0, fail)`` is called on the final trees."""
    res = Result()
    cfg0 = case["cfg"]
    nb = rfmodel.sample_nbytes(cfg0)
    seen = set()

    def fail(sig, detail):
        if sig not in seen:
            seen.add(sig)
            res.fail(sig, detail)

    definite = {}  # abs index -> bytes
    maybe = {}
    file_owner_windows = []  # windows (lo,hi) of files that exist (for continuous fill)
    restart_inside = any(s["s"] == "open" and s.get("mode") in ("inside", "earlier", "subdir-before") for s in case["steps"])
    refusal_then_ok = False
    had_refusal = False
    env = case.get("env") or {}
    old_cwd = os.getcwd()
    old_nofile = None
    kept = {"rd": None, "tops": None} if env.get("keep_reader") else None
    with rfharness.scratch("c11") as base0:
        base = base0
        pad = env.get("pad", 0)
        if pad == "odd":
            base = os.path.join(base, "tmp.data", "site7.tmp.rf@2014.h5.d")
            pad = 0
        while pad > 0:
            comp = "p" * min(pad, 180)
            base = os.path.join(base, comp)
            pad -= len(comp) + 1
        tops = [os.path.join(base, "top%d" % i) for i in range(case["ndirs"])]
        for t in tops:
            os.makedirs(os.path.join(t, "ch0"))
        cwd_mode = env.get("cwd")

        spelled = {}

        def spell(full):
            """how a directory is named to the library: absolute (plain / with a trailing slash), or relative to the current
            directory (plain / decorated).  The application keeps its path variables: every later session, reader and
            regeneration is handed the SAME string object."""
            if full not in spelled:
                if cwd_mode == "rel":
                    spelled[full] = os.path.relpath(full, base)
                elif cwd_mode == "rel-dot":
                    spelled[full] = "./" + os.path.relpath(full, base) + "/"
                elif cwd_mode == "slash":
                    spelled[full] = full + "/"
                else:
                    spelled[full] = full
            return spelled[full]

        if cwd_mode == "chan":
            os.chdir(os.path.join(tops[0], "ch0"))  # a directory that holds entries named like the subdirectories
        elif cwd_mode == "top":
            os.chdir(tops[0])
        elif cwd_mode in ("rel", "rel-dot"):
            os.chdir(base)
        repeat = max(1, env.get("repeat", 1))
        if repeat > 8 or env.get("lowfd"):
            # many refused calls / many sessions with few descriptors to spare: a refusal that leaks a handle makes a later valid call fail
            import resource
            old_nofile = resource.getrlimit(resource.RLIMIT_NOFILE)
            nopen = len(os.listdir("/proc/self/fd"))
            resource.setrlimit(resource.RLIMIT_NOFILE, (min(old_nofile[1], nopen + 24), old_nofile[1]))
        w = None
        cfg = None
        hashes = {}
        last_written = None
        from vlib import unpriv
        perm = env.get("perm")
        if perm is not None and not unpriv.ENFORCED:
            res.cls("permissions-not-enforced")
            perm = None
        elif perm is not None:
            res.cls("earlier-files-mode-%03o" % perm)

        def protect(mode):
            for t in tops:
                for dp_, _dn, fns_ in os.walk(t):
                    for fn_ in fns_:
                        if fn_.startswith("rf@") and fn_.endswith(".h5"):
                            try:
                                os.chmod(os.path.join(dp_, fn_), mode)
                            except OSError:
                                pass

        try:
          try:
              for si, st_ in enumerate(case["steps"]):
                  res.evaluations += 1
                  kind = st_["s"]
                  if perm is not None and kind in ("open", "write", "close"):
                      protect(perm)
                  if kind == "open":
                      cfg = dict(cfg0, start=st_["start"], salt=st_["salt"], uuid=st_["uuid"])
                      try:
                          with rfharness.quiet_fds():
                              w = rfharness.open_py_writer(cfg, spell(os.path.join(tops[st_["dir"]], "ch0")))
                      except Exception as e:
                          fail("open-refused", "step %d: session with identical parameters refused: %s" % (si, e))
                          raise _Stop()
                  elif kind == "close":
                      try:
                          with rfharness.quiet_fds():
                              w.close()
                      except Exception as e:
                          # every call of this session was either accepted or refused without effect: close must succeed
                          w = None
                          fail("close-failed-after-refusal" if had_refusal else "close-failed", "step %d: %s: %s" % (si, type(e).__name__, e))
                          raise _Stop()
                      w = None
                      last_written = None
                  elif kind == "mismatch":
                      chd = os.path.join(tops[st_["dir"]], "ch0")
                      param = st_["param"]
                      saved_props = None
                      if param.endswith("+emptied-properties"):
                          # another actor has truncated drf_properties.h5 of a channel that holds data: a writer whose
                          # parameters differ from the channel's (as every data file records them) still must not get in
                          param = param.split("+")[0]
                          pp = os.path.join(chd, "drf_properties.h5")
                          with open(pp, "rb") as f_:
                              saved_props = f_.read()
                          with open(pp, "wb"):
                              pass
                      before = treeutil.snapshot(chd, mtime=True)
                      bad = mismatched(dict(cfg0, start=cfg0["start"], salt=1, uuid="sessx"), param)
                      try:
                          with rfharness.quiet_fds():
                              w2 = rfharness.open_py_writer(bad, spell(chd))
                          if True:
                              # (only reached when the session was wrongly accepted) let it record one file in a free later
                              # period, so that checks inspecting the files see what such a session leaves behind
                              stamps = [int(fn[3:-3].replace(".", "")) for t in tops for _, _, fns in os.walk(t) for fn in fns
                                        if fn.startswith("rf@") and fn.endswith(".h5")]
                              if stamps:
                                  k0 = rfmodel.first_sample(cfg0, max(stamps) + 2 * cfg0["F"])
                                  if k0 >= bad["start"]:
                                      rfharness.py_issue(w2, bad, {"op": "w", "idx": k0 - bad["start"], "len": 3}, 777)
                          with rfharness.quiet_fds():
                              w2.close()
                          fail("mismatch-accepted:" + st_["param"], "step %d: writer with different %s was accepted" % (si, st_["param"]))
                      except Exception:
                          pass
                      after = treeutil.snapshot(chd, mtime=True)
                      if after != before:
                          fail("mismatch-changed-directory:" + st_["param"], "step %d: %s" % (si, treeutil.diff(before, after)))
                      if saved_props is not None:
                          with open(os.path.join(chd, "drf_properties.h5"), "wb") as f_:
                              f_.write(saved_props)
                  elif kind == "regen":
                      chd = os.path.join(tops[st_["dir"]], "ch0")
                      pp = os.path.join(chd, "drf_properties.h5")
                      if os.path.exists(pp) and any(fn.startswith("rf@") for _d, _dn, fns in os.walk(chd) for fn in fns):
                          os.remove(pp)
                          hashes.pop(pp, None)  # (the regenerated file is a new file; DATA files must stay as they are)
                          try:
                              with rfharness.quiet_fds():
                                  rfharness.drf().recreate_properties_file(chd)
                          except Exception as e:
                              fail("regenerate-properties-failed", "step %d: %s: %s" % (si, type(e).__name__, e))
                              raise _Stop()
                          # asked once more, the tool finds the file it has just made: whatever it answers (it refuses), the
                          # channel must stay what it is - the sessions and reads that follow find out
                          try:
                              with rfharness.quiet_fds():
                                  rfharness.drf().recreate_properties_file(chd)
                          except Exception:
                              pass
                  elif kind == "linkify":
                      chd = os.path.join(tops[st_["dir"]], "ch0")
                      store = os.path.join(base, "store%d" % st_["dir"])
                      for sub in sorted(os.listdir(chd)):
                          sp = os.path.join(chd, sub)
                          if not os.path.isdir(sp) or os.path.islink(sp):
                              continue
                          for fn in sorted(os.listdir(sp)):
                              fp = os.path.join(sp, fn)
                              if fn.startswith("rf@") and fn.endswith(".h5") and not os.path.islink(fp):
                                  os.makedirs(os.path.join(store, sub), exist_ok=True)
                                  os.rename(fp, os.path.join(store, sub, fn))
                                  os.symlink(os.path.join(store, sub, fn), fp)
                  elif kind == "write":
                      op = st_["op"]
                      r = rfharness.py_issue(w, cfg, op, op["cid"])
                      if st_["expect"] != "ok" and r[0] != "ok":
                          for _rep in range(repeat - 1):
                              # the same refused call again (and again): each one must be refused and change nothing
                              r = rfharness.py_issue(w, cfg, op, op["cid"])
                              if r[0] == "ok":
                                  break
                      raw = rfmodel.call_bytes(cfg, op["cid"], op["len"])
                      runs = []
                      if op["op"] == "w":
                          runs.append((cfg["start"] + op["idx"], op["len"], 0))
                      else:
                          for i, g in enumerate(op["g"]):
                              ln = (op["d"][i + 1] if i + 1 < len(op["g"]) else op["len"]) - op["d"][i]
                              runs.append((cfg["start"] + g, ln, op["d"][i]))
                      if st_["expect"] == "ok":
                          if r[0] != "ok":
                              sig = "later-write-refused-after-refusal" if had_refusal else "valid-write-refused"
                              fail(sig, "step %d %r: %s" % (si, {k: op[k] for k in ("op", "idx", "len") if k in op}, r[1]))
                              raise _Stop()
                          if had_refusal:
                              refusal_then_ok = True
                          for s, ln, off in runs:
                              for i in range(ln):
                                  definite[s + i] = raw[(off + i) * nb:(off + i + 1) * nb]
                              last_written = s + ln - 1
                              file_owner_windows.extend(rfmodel.window(cfg, ms) for ms in stamps_of(cfg, cfg["start"], op))
                      else:
                          had_refusal = True
                          if r[0] == "ok":
                              fail("conflicting-write-accepted", "step %d %r returned %r although a finalized file of an earlier session covers it" % (
                                  si, {k: op[k] for k in ("op", "idx", "len") if k in op}, r[1]))
                              raise _Stop()
                          s, ln, off = runs[0]
                          last_written = None  # a refused call finalizes the file that was open
                          for i in range(min(st_.get("prefix", 0), ln)):
                              maybe[s + i] = raw[(off + i) * nb:(off + i + 1) * nb]
                          if st_.get("prefix", 0):
                              file_owner_windows.extend(rfmodel.window(cfg, ms) for ms in stamps_of(cfg, cfg["start"], dict(op, len=st_["prefix"])))
                  elif kind == "read":
                      # samples of the file the open session is still writing sit in a tmp. file (not visible yet)
                      open_win = None
                      if w is not None and last_written is not None:
                          open_win = rfmodel.window(cfg0, rfmodel.file_ms(cfg0, last_written))
                      _read_check(cfg0, tops, definite, maybe, file_owner_windows, fail, si, open_win, spell=spell, kept=kept,
                                  away=base0 if (cwd_mode in ("rel", "rel-dot") and w is None) else None)
                  # finalized files never change
                  if perm is not None:
                      protect(0o644)
                  now = final_hashes(tops)
                  for p, h in hashes.items():
                      if p not in now:
                          fail("finalized-file-disappeared", "step %d %s: %s" % (si, kind, os.path.relpath(p, base)))
                      elif now[p] != h:
                          fail("finalized-file-changed", "step %d %s: %s" % (si, kind, os.path.relpath(p, base)))
                  hashes.update({p: h for p, h in now.items() if p not in hashes})
                  if res.failures:
                      raise _Stop()
          except _Stop:
            # close the session, then look once more at what the earlier sessions had published
            if perm is not None:
                protect(0o644)
            if w is not None:
                with rfharness.quiet_fds():
                    try:
                        w.close()
                    except Exception:
                        pass
                w = None
            now = final_hashes(tops)
            for p, h in hashes.items():
                if p not in now:
                    fail("finalized-file-disappeared", "after the stopped history was closed: %s" % os.path.relpath(p, base))
                elif now[p] != h:
                    fail("finalized-file-changed", "after the stopped history was closed: %s" % os.path.relpath(p, base))
            _read_check(cfg0, tops, definite, maybe, file_owner_windows, fail, len(case["steps"]), None, values_only=True, spell=spell)
          if on_tree is not None and w is None:
            on_tree(tops, cfg0, fail)
        finally:
            if perm is not None:
                protect(0o644)
            if w is not None:
                with rfharness.quiet_fds():
                    try:
                        w.close()
                    except Exception:
                        pass
            if kept and kept["rd"] is not None:
                kept["rd"].close()
            if old_nofile is not None:
                import resource
                resource.setrlimit(resource.RLIMIT_NOFILE, old_nofile)
            os.chdir(old_cwd)
    if keep is not None:
        res.failures = [f for f in res.failures if f[0].startswith(tuple(keep))]
    res.nontrivial = restart_inside or refusal_then_ok
    if restart_inside:
        res.cls("restart-inside-or-before")
    if refusal_then_ok:
        res.cls("refusal-then-valid-write")
    if case["ndirs"] > 1:
        res.cls("multi-dir")
    if any(s["s"] == "mismatch" for s in case["steps"]):
        res.cls("mismatch")
    if any(s.get("retry") for s in case["steps"]):
        res.cls("retry")
    if any(s["s"] == "write" and s["op"].get("cross") and s["expect"] == "ok" for s in case["steps"]):
        res.cls("enters-existing-subdir-at-free-period")
    return res


def _read_check(cfg, tops, definite, maybe, windows, fail, si, open_win=None, values_only=False, spell=None, kept=None, away=None):
    drf = rfharness.drf()
    usable = [t for t in tops if os.path.exists(os.path.join(t, "ch0", "drf_properties.h5"))]
    if not usable or not definite:
        return
    try:
        names = [spell(t) for t in usable] if spell else usable
        if kept is not None:
            # one reader object stays open across sessions (re-created only when another top-level directory gains the
            # channel, which a reader learns at construction)
            if kept["rd"] is None or kept["tops"] != names:
                if kept["rd"] is not None:
                    kept["rd"].close()
                with rfharness.quiet_fds():
                    kept["rd"] = drf.DigitalRFReader(names)
                kept["tops"] = names
            rd = kept["rd"]
        else:
            with rfharness.quiet_fds():
                rd = drf.DigitalRFReader(names if len(names) > 1 else names[0])
        if away is not None:
            # the reader was given relative directory names; the process changes its current directory afterwards
            back = os.getcwd()
            os.chdir(away)
            try:
                return _read_queries(cfg, rd, kept, definite, maybe, windows, fail, si, open_win, values_only)
            finally:
                os.chdir(back)
        return _read_queries(cfg, rd, kept, definite, maybe, windows, fail, si, open_win, values_only)
    except Exception as e:
        fail("union-read-exception:%s" % type(e).__name__, "step %d: %s" % (si, e))


def _read_queries(cfg, rd, kept, definite, maybe, windows, fail, si, open_win, values_only):
    drf = rfharness.drf()
    try:
        lo = min(min(definite), min(maybe) if maybe else min(definite))
        hi = max(max(definite), max(maybe) if maybe else max(definite))
        spf = rfmodel.samples_per_file_max(cfg)
        got = {}
        sd = rfmodel.stored_dtype(cfg)
        nb = rfmodel.sample_nbytes(cfg)
        # read in pieces so that one pathological span cannot exhaust memory
        a = max(0, lo - spf - 2)
        end = hi + spf + 2
        # look ahead into the following subdirectory period (which may not exist yet - a later session may create it)
        ahead = (cfg["S"] * 1000 // cfg["F"]) * spf
        if ahead <= 256 * spf:
            end += ahead
        tail = None
        if kept is not None:
            # a reader that polls: its first query of this pass is for the newest stretch alone ...
            t0 = max(lo, rfmodel.first_sample(cfg, rfmodel.subdir_s(cfg, hi) * 1000))  # ... starting in the newest subdirectory
            if hi - t0 > 4 * spf:
                t0 = hi - 2 * spf
            with rfharness.quiet_fds():
                tail = (t0, rd.read(t0, hi + 1, "ch0"))
        with rfharness.quiet_fds():
            blocks = rd.get_continuous_blocks(a, end, "ch0")
        # the union reads back as ONE channel: blocks in index order, disjoint and maximal whichever directory holds them
        bl = [(int(k), int(ln)) for k, ln in blocks.items()]
        for (k0, l0), (k1, l1) in zip(bl, bl[1:]):
            if k1 <= k0:
                fail("union-blocks-unsorted", "step %d: get_continuous_blocks returns %r" % (si, bl[:6]))
                break
            if k0 + l0 >= k1:
                fail("union-blocks-not-merged", "step %d: blocks (%d,%d) and (%d,%d) touch or overlap" % (si, k0, l0, k1, l1))
                break
        # the same for windows that cover only a part of the recording (whichever directories hold that part)
        span = hi - lo
        for wa, wb in ((lo, lo + span // 3), (lo + span // 3, lo + 2 * span // 3), (lo + 2 * span // 3 + 1, hi), (a, lo + span // 5)):
            if wb - wa <= 1 << 16 and wb >= wa:
                with rfharness.quiet_fds():
                    cbw = [(int(k), int(v)) for k, v in rd.get_continuous_blocks(wa, wb, "ch0").items()]
                    rdw = [(int(k), int(v.shape[0])) for k, v in rd.read(wa, wb, "ch0").items()]
                if cbw != rdw:
                    fail("union-read-vs-blocks", "step %d: window [%d,%d]: read() blocks %r, get_continuous_blocks %r" % (si, wa, wb, rdw[:5], cbw[:5]))
                    break
        if end - a <= 1 << 16:
            with rfharness.quiet_fds():
                whole = rd.read(a, end, "ch0")
            wl = [(int(k), int(v.shape[0])) for k, v in whole.items()]
            if wl != bl:
                fail("union-read-vs-blocks", "step %d: read() blocks %r, get_continuous_blocks %r" % (si, wl[:6], bl[:6]))
            # a vector read inside a block that spans sessions / files / directories must succeed and agree
            for k0, l0 in sorted(bl, key=lambda t: -t[1])[:2]:
                n_ = min(l0, 4 * spf)
                with rfharness.quiet_fds():
                    vec = rd.read_vector_raw(k0, n_, "ch0")
                ref = [v for k, v in whole.items() if int(k) == k0]
                if ref and np.ascontiguousarray(vec).astype(sd, copy=False).tobytes() != np.ascontiguousarray(ref[0][:n_]).astype(sd, copy=False).tobytes():
                    fail("union-read-vector-differs", "step %d: read_vector_raw(%d,%d) differs from read()" % (si, k0, n_))
        # ... and so must a vector read over a stretch that was WRITTEN without a gap (by whichever sessions, into whichever
        # files and directories): to the reader it is one block
        vis = sorted(k for k in definite if not (open_win and open_win[0] <= k < open_win[1]))
        runs = []
        for k in vis:
            if runs and runs[-1][1] + 1 == k:
                runs[-1][1] = k
            else:
                runs.append([k, k])
        for r0, r1 in sorted(runs, key=lambda r: r[0] - r[1])[:2]:
            n_ = min(r1 - r0 + 1, 4 * spf, 1 << 16)
            try:
                with rfharness.quiet_fds():
                    vec = rd.read_vector_raw(r0, n_, "ch0")
            except Exception as e:
                fail("union-read-vector-fails", "step %d: read_vector_raw(%d,%d) over samples written without a gap: %s: %s" % (si, r0, n_, type(e).__name__, e))
                break
            if np.ascontiguousarray(vec).astype(sd, copy=False).tobytes() != b"".join(definite[r0 + i] for i in range(n_)):
                fail("union-read-wrong-value", "step %d: read_vector_raw(%d,%d) differs from what was written" % (si, r0, n_))
                break
        for k, ln in blocks.items():
            k, ln = int(k), int(ln)
            for c0 in range(k, k + ln, 1 << 18):  # long blocks are read in pieces
                c1 = min(k + ln, c0 + (1 << 18)) - 1
                with rfharness.quiet_fds():
                    d = rd.read(c0, c1, "ch0")
                for kk, arr in d.items():
                    raw = np.ascontiguousarray(arr).astype(sd, copy=False).tobytes()
                    for i in range(arr.shape[0]):
                        got[int(kk) + i] = raw[i * nb:(i + 1) * nb]
        if tail is not None:
            tgot = set()
            for kk, arr in tail[1].items():
                tgot.update(range(int(kk), int(kk) + arr.shape[0]))
            tmiss = [k for k in got if tail[0] <= k <= hi + 1 and k not in tgot]
            if tmiss:
                fail("union-reads-disagree", "step %d: read(%d,%d) of a kept reader misses %d samples that its later whole-span read returns, first %d" % (
                    si, tail[0], hi + 1, len(tmiss), min(tmiss)))
            # ... and its last one looks ahead of the data
            nxt_sub = rfmodel.first_sample(cfg, (rfmodel.subdir_s(cfg, hi) + cfg["S"]) * 1000)
            with rfharness.quiet_fds():
                rd.read(hi + 1, end, "ch0")
                if nxt_sub + spf - 1 - hi <= 256 * spf:
                    rd.read(hi + 1, nxt_sub + spf - 1, "ch0")  # ends just inside the next subdirectory period
        missing = [k for k in definite if k not in got and not (open_win and open_win[0] <= k < open_win[1])]
        if missing:
            fail("union-read-missing-sample", "step %d: %d written samples not returned, first %d" % (si, len(missing), min(missing)))
        cont_fill = cfg["cont"] and not rfmodel.chunked(cfg)
        for k, v in got.items():
            if k in definite:
                if v != definite[k]:
                    fail("union-read-wrong-value", "step %d: sample %d differs from what was written" % (si, k))
                    break
            elif k in maybe:
                if v != maybe[k] and not cont_fill:
                    fail("union-read-wrong-value", "step %d: sample %d (prefix of a refused call) has a foreign value" % (si, k))
                    break
            elif values_only or (cont_fill and any(lo_ <= k < hi_ for lo_, hi_ in windows)):
                continue
            else:
                fail("union-read-unwritten-sample", "step %d: sample %d returned but never written" % (si, k))
                break
        b = rd.get_bounds("ch0")
        if got and open_win is None and not values_only:
            if tuple(int(x) for x in b) != (min(got), max(got)):
                fail("union-bounds", "step %d: bounds %r but reads span (%d,%d)" % (si, b, min(got), max(got)))
        if kept is None:
            rd.close()
    except Exception as e:
        fail("union-read-exception:%s" % type(e).__name__, "step %d: %s" % (si, e))


def shrink_candidates(case):
    steps = case["steps"]
    # drop trailing steps first (histories are prefix-closed), then reads / mismatches anywhere
    for n in range(len(steps) - 1, 0, -1):
        cand = steps[:n]
        if cand and cand[-1]["s"] != "close" and any(s["s"] == "open" for s in cand):
            opened = 0
            for s in cand:
                opened += 1 if s["s"] == "open" else (-1 if s["s"] == "close" else 0)
            if opened > 0:
                cand = cand + [{"s": "close"}]
        yield dict(case, steps=cand + [{"s": "read"}])
    for i, s in enumerate(steps):
        if s["s"] in ("read", "mismatch") and i + 1 < len(steps):
            yield dict(case, steps=steps[:i] + steps[i + 1:])
