"""C10 - I/O fault containment in the writer (DESIGN.md section 4, C10)."""
from __future__ import annotations

import concurrent.futures
import os
import shutil

import h5py
import numpy as np
from hypothesis import strategies as st

from checks import c02, c06, c09
from vlib import fsx, rfharness, rfmodel, strategies as S
from vlib.campaign import Result

PID = "C10"
LEVEL = "fault_enumeration"
ENGINE = "fsx+pbt"
TECHNIQUE = "fault enumeration: Hypothesis generates small recordings; for each one EVERY single-fault schedule (operation k x {ENOSPC, EIO} x {once, persistent}) is injected by the LD_PRELOAD interposer and the outcome judged against the reference model and the calls' return codes"
RULE = (
    "For each generated recording (2-6 files, C API driver; a sample of schedules also through the Python writer) a "
    "trace run numbers the N file-system operations; then every schedule (k, errno in {ENOSPC, EIO}, once | "
    "persistent-for-the-same-class) is executed. Oracle: (1) every file under a final name (data files and "
    "drf_properties.h5) opens, passes the C06 structure check and holds only model samples with model values, and "
    "files finalized before op k equal the no-fault run; (2) if a sample of a call that returned success is not "
    "readable at the end, some call from the one in progress at the fault up to the first call issued after it "
    "(close included) reported an error; (3) after the first reported error every later write reports an error. "
    "Exhaustive over the schedules of each generated sequence. Non-trivial: the fault hits a write / truncate / close "
    "/ rename of a data file (distinct_nontrivial counts such schedules, distinct by construction, plus the "
    "recordings dominated by them)."
)
ASSUMPTIONS = [
    "fault points are those of HDF5 1.10.8 (system library); the shipped wheel uses HDF5 1.14.5",
    "an injected failure has no effect on the file (a failing close still releases the descriptor)",
]
FLOORS = {"nontrivial": 0.5}
ERRNOS = {"ENOSPC": 28, "EIO": 5}


def budget(tier):
    return {"examples": 6 if tier == "quick" else 16, "shards": 1 if tier == "quick" else 16}


@st.composite
def _cases(draw, tier):
    cfg = draw(S.rf_configs(spf_cap=64, boundary_p=0.5))
    ops = draw(S.write_ops(cfg, max_calls=3, max_files=2, allow_blocks=not cfg["cont"]))
    if not cfg["cont"] and draw(st.integers(0, 1)):
        # end with block writes (the Python rf_write_blocks path reaches digital_rf_write_blocks_hdf5 directly), so that
        # "refuses further writes after an error" is also exercised through that entry point
        m = rfmodel.Model(cfg)
        for op in ops:
            m.apply(op)
        spf = rfmodel.samples_per_file_max(cfg)
        for _ in range(draw(st.integers(1, 2))):
            nxt = m.next_avail + draw(st.sampled_from([0, 1, spf]))
            l1 = draw(st.integers(1, max(1, spf)))
            l2 = draw(st.integers(1, max(1, spf // 2)))
            op = {"op": "b", "len": l1 + l2, "g": [nxt, nxt + l1 + draw(st.integers(1, max(1, spf)))], "d": [0, l1]}
            m.apply(op)
            ops.append(op)
    return {"cfg": cfg, "ops": ops, "py_sample": [draw(st.integers(0, 10 ** 6)) for _ in range(6 if tier == "quick" else 25)],
            # how the Python recording ends: close(), a with block, a with block left by an application exception
            "py_end": draw(st.sampled_from(["close", "with", "withexc", "withexc"]))}


def strategy(tier):
    return _cases(tier)


def directed_cases(tier):
    """A gapped recording whose calls go through every write entry point after a file roll-over: rf_write crossing a
    file boundary, then block writes (rf_write_blocks reaches digital_rf_write_blocks_hdf5 directly), then rf_write."""
    cfg = {"kind": "i", "size": 2, "order": "<", "cplx": 1, "form": "struct", "nsub": 1, "n": 100, "d": 1, "F": 1000, "S": 10,
           "cont": 0, "comp": 0, "checksum": 0, "salt": 5, "uuid": "verif", "start": 170000000040}
    ops = [{"op": "w", "idx": 0, "len": 90}, {"op": "b", "len": 50, "g": [100, 180], "d": [0, 30]},
           {"op": "b", "len": 40, "g": [260, 300], "d": [0, 10]}, {"op": "w", "idx": 400, "len": 30}]
    out = [{"cfg": cfg, "ops": ops, "py_sample": [3, 14, 15, 92, 65, 35], "py_end": "withexc"}]
    # a chunked file larger than HDF5's 1 MiB chunk cache (32-byte samples): H5Dwrite then has to evict - i.e. write out -
    # chunks that belong to EARLIER, already accepted calls, so a fault during a later call can lose an earlier call's data
    big = {"kind": "i", "size": 8, "order": "<", "cplx": 1, "form": "struct", "nsub": 2, "n": 100000, "d": 1, "F": 1000, "S": 10,
           "cont": 0, "comp": 0, "checksum": 0, "salt": 6, "uuid": "verif", "start": 170000000000000}
    out.append({"cfg": big, "ops": [{"op": "w", "idx": 20000 * i, "len": 20000} for i in range(4)] + [{"op": "w", "idx": 95000, "len": 9000}],
                "py_sample": [7, 21]})
    # a continuous (unchunked) file: an append of more than 64 KiB (HDF5's sieve buffer) to a file that is already open goes
    # to the disk inside the write call itself
    contbig = dict(big, kind="i", size=2, cplx=0, nsub=1, cont=1, salt=8)
    out.append({"cfg": contbig, "ops": [{"op": "w", "idx": 0, "len": 20000}, {"op": "w", "idx": 20000, "len": 50000}, {"op": "w", "idx": 70000, "len": 20000},
                                        {"op": "w", "idx": 99000, "len": 3000}], "py_sample": [5, 9], "py_end": "close"})
    return out


def call_of_op(events):
    """op index -> call number in progress, plus per-call rc, plus ordered list of op records."""
    cur = None
    op_call = {}
    rcs = {}
    ops = {}
    order = []
    for e in events:
        if e[0] == "BEGIN":
            cur = e[1]
            order.append(cur)
        elif e[0] == "END":
            rcs[e[1]] = e[2]
            cur = None
        elif e[0] == "OP":
            op_call[e[1]] = cur
            ops[e[1]] = e
    return op_call, rcs, ops, order


def file_semantic(path):
    with h5py.File(path, "r") as f:
        d = f["rf_data"]
        attrs = {}
        for k, v in d.attrs.items():
            if k == "computer_time":
                continue
            v = v.item() if hasattr(v, "item") else v
            attrs[k] = v.decode() if isinstance(v, bytes) else v
        return (np.ascontiguousarray(d[...]).tobytes(), f["rf_data_index"][...].tolist(), sorted(attrs.items()))


def judge_run(case, m, sched, top, events, ref, fail, writer):
    cfg = case["cfg"]
    k, ename, persist = sched
    tag = ":%s" % writer
    ch = os.path.join(top, "ch0")
    op_call, rcs, ops, order = call_of_op(events)
    ncalls = len(case["ops"]) + 2  # init + writes + close
    where = "fault %s%s at op %d (%s, during call %s)" % (ename, " persistent" if persist else "", k,
                                                          ops[k][2] if k in ops else "?", op_call.get(k))
    # ---- (1) everything under a final name is readable and truthful
    props = os.path.join(ch, "drf_properties.h5")
    finals, tmps = c02.final_files(ch) if os.path.isdir(ch) else ([], [])
    props_ok = False
    if os.path.exists(props):
        try:
            with h5py.File(props, "r") as f:
                props_ok = "sample_rate_numerator" in f.attrs and "is_continuous" in f.attrs and "digital_rf_version" in f.attrs
            if not props_ok:
                fail("published-properties-incomplete" + tag, "%s: drf_properties.h5 lacks attributes" % where)
        except Exception as e:
            fail("published-file-unreadable" + tag, "%s: drf_properties.h5: %s" % (where, e))
    info, _ = rfharness.raw_files(ch) if os.path.isdir(ch) else ({}, [])
    for rel in finals:
        fi = info.get(rel)
        if fi is None or "error" in fi:
            fail("published-file-unreadable" + tag, "%s: %s: %s" % (where, rel, fi and fi.get("error")))
            continue
        r = Result()
        c06.check_structure(cfg, rel, fi, r, "")
        for s, d in r.failures:
            fail("published-file-structure:" + s + tag, "%s: %s" % (where, d))
        if rel in ref["renamed_at"] and ref["renamed_at"][rel] < k:
            try:
                if file_semantic(os.path.join(ch, rel)) != ref["semantic"][rel]:
                    fail("earlier-file-changed" + tag, "%s: %s finalized at op %d differs from the no-fault run" % (where, rel, ref["renamed_at"][rel]))
            except Exception as e:
                fail("published-file-unreadable" + tag, "%s: %s: %s" % (where, rel, e))
    for rel, at in ref["renamed_at"].items():
        if at < k and rel not in finals:
            fail("earlier-file-lost" + tag, "%s: %s finalized at op %d is gone" % (where, rel, at))
    # ---- what is readable at the end
    R = {}
    if props_ok:
        try:
            with rfharness.quiet_fds():
                rd = rfharness.drf().DigitalRFReader(top)
            got = c09.full_pass(cfg, m, rd, lambda s, d: fail("final-" + s + tag, "%s: %s" % (where, d)), "after faulty run", [0, 0])
            rd.close()
            R = got or {}
        except Exception as e:
            fail("final-reader-failed:%s%s" % (type(e).__name__, tag), "%s: %s" % (where, e))
    exp, fills = c09.model_map(cfg, m, None)
    for idx, v in R.items():
        if idx not in exp:
            fail("published-sample-not-written" + tag, "%s: index %d readable but never written" % (where, idx))
            break
        if idx in fills:
            continue
        if v != exp[idx]:
            fail("published-sample-wrong-value" + tag, "%s: index %d" % (where, idx))
            break
    # ---- (2) silent loss
    A = {}
    nb = rfmodel.sample_nbytes(cfg)
    for j, op in enumerate(case["ops"]):
        call = j + 1
        if rcs.get(call) == 0:
            mm = rfmodel.Model(cfg)
            mm.call = j
            mm.next_avail = 0
            mm.apply(dict(op, cid=op.get("cid", j)))
            for s, ln, c_, pos0 in mm.runs:
                for i in range(ln):
                    A[s + i] = True
    lost = [i for i in A if i not in R]
    jf = op_call.get(k)
    errors = sorted(c for c, rc in rcs.items() if rc != 0)
    if lost:
        # calls in which the error may be reported: the one in progress, or the first one issued after the fault
        if jf is None:
            later = [c for c in order if c > max([cc for cc in op_call.values() if cc is not None and cc <= (jf or 0)] + [0])]
        allowed = set()
        if jf is not None:
            allowed.add(jf)
            nxt = [c for c in order if c > jf]
            if nxt:
                allowed.add(nxt[0])
        reported = [c for c in errors if c in allowed]
        if not reported:
            fail("silent-loss" + tag, "%s: %d accepted samples unreadable (first %d) but no error from call %s or the next one; return codes %r" % (
                where, len(lost), min(lost), jf, [rcs.get(c) for c in order]))
    # ---- (3) refuses further writes after the first reported error
    if errors:
        first = errors[0]
        for c in order:
            if c > first and c < ncalls - 1 and rcs.get(c) == 0:
                fail("write-accepted-after-error" + tag, "%s: call %d returned success after call %d had failed" % (where, c, first))
                break


def run_case(case):
    res = Result()
    cfg = case["cfg"]
    seen = set()

    def fail(sig, detail):
        if sig not in seen:
            seen.add(sig)
            res.fail(sig, detail)

    m = rfmodel.Model(cfg)
    for op in case["ops"]:
        m.apply(op)
    with rfharness.scratch("c10") as base:
        # ---- no-fault reference
        rtop = os.path.join(base, "ref", "data")
        rch = os.path.join(rtop, "ch0")
        os.makedirs(rch)
        rc, ev, err = fsx.run("c", cfg, case["ops"], rtop, rch, os.path.join(base, "ref"))
        op_call, rcs, ops, order = call_of_op(ev)
        N = len(ops)
        if rc != 0 or N == 0 or any(v != 0 for v in rcs.values()):
            res.fail("reference-run-failed", "rc=%s rcs=%r %s" % (rc, rcs, err[-300:]))
            return res
        ref = {"renamed_at": {}, "semantic": {}}
        for k, e in ops.items():
            if e[2] == "rename" and e[4] == 0:
                dst = e[3].split(">")[1]
                ref["renamed_at"][os.path.relpath(dst.replace(os.path.join(base, "ref", "data"), rtop), rch)] = k
        for rel in list(ref["renamed_at"]):
            p = os.path.join(rch, rel)
            if rel.endswith("drf_properties.h5") or not os.path.exists(p):
                ref["renamed_at"].pop(rel)
                continue
            ref["semantic"][rel] = file_semantic(p)
        scheds = [(k, en, ps) for k in range(N) for en in ("ENOSPC", "EIO") for ps in (0, 1)]
        nt = 0
        for k, en, ps in scheds:
            e = ops[k]
            if e[2] in ("pwrite", "write", "ftruncate", "close", "rename") and (e[2] == "rename" and "rf@" in e[3] or e[2] != "rename"):
                nt += 1

        def execute(args):
            i, writer, (k, en, ps) = args
            d = os.path.join(base, "run%d%s" % (i, writer))
            top = os.path.join(d, "data")
            os.makedirs(os.path.join(top, "ch0"))
            rc_, ev_, err_ = fsx.run(writer, cfg, case["ops"], top, os.path.join(top, "ch0"), d,
                                     {"FSX_FAIL_AT": str(k), "FSX_ERRNO": str(ERRNOS[en]), "FSX_PERSIST": str(ps),
                                      "PYW_END": case.get("py_end", "close")}, timeout=60)
            return i, writer, (k, en, ps), d, top, rc_, ev_, err_

        jobs = [(i, "c", s) for i, s in enumerate(scheds)]
        # the Python path: the trace differs (more opens), so it has its own numbering: sample operations of ITS trace
        ptop = os.path.join(base, "pref", "data")
        os.makedirs(os.path.join(ptop, "ch0"))
        prc, pev, _ = fsx.run("py", cfg, case["ops"], ptop, os.path.join(ptop, "ch0"), os.path.join(base, "pref"),
                              {"PYW_END": case.get("py_end", "close")})
        pops = call_of_op(pev)[2]
        pref = {"renamed_at": {}, "semantic": {}}
        for k, e in pops.items():
            if e[2] == "rename" and e[4] == 0 and "rf@" in e[3]:
                rel = os.path.relpath(e[3].split(">")[1], os.path.join(ptop, "ch0"))
                pref["renamed_at"][rel] = k
                pref["semantic"][rel] = file_semantic(os.path.join(ptop, "ch0", rel))
        if prc == 0 and pops:
            for j, x in enumerate(case["py_sample"]):
                jobs.append((10000 + j, "py", (x % len(pops), ("ENOSPC", "EIO")[x % 2], (x // 2) % 2)))
            # every operation of the final close() through the Python API (errors there used to be unreportable)
            pcall = call_of_op(pev)[0]
            last_call = max(c for c in pcall.values() if c is not None)
            for j, k in enumerate(sorted(k for k, c in pcall.items() if c == last_call)):
                jobs.append((20000 + j, "py", (k, "ENOSPC", 0)))
        with concurrent.futures.ThreadPoolExecutor(max_workers=12) as ex:
            for i, writer, sched, d, top, rc_, ev_, err_ in ex.map(execute, jobs):
                res.evaluations += 1
                ends = [e for e in ev_ if e[0] == "END"]
                if writer == "c" and (not ends or ends[-1][1] != len(case["ops"]) + 1):
                    # the library must survive any injected fault and return from every call (a crash of the HDF5
                    # library's own atexit handler after the last call returned is not judged)
                    fail("writer-crashed:c", "fault %r: driver rc=%s, last completed call %s; %s" % (
                        sched, rc_, ends[-1][1] if ends else None, err_[-300:]))
                try:
                    judge_run(case, m, sched, top, ev_, ref if writer == "c" else pref, fail, writer)
                except Exception as e:
                    fail("judge-exception:%s" % type(e).__name__, "fault %r: %s" % (sched, e))
                shutil.rmtree(d, ignore_errors=True)
        res.nontrivial = nt * 2 >= len(scheds)
        res.nt_units = nt
        res.cls("ops:%d" % (N // 10 * 10))
    return res


def shrink_candidates(case):
    ops = case["ops"]
    for i in range(len(ops) - 1, -1, -1):
        if len(ops) > 1:
            yield dict(case, ops=ops[:i] + ops[i + 1:])
    if case["py_sample"]:
        yield dict(case, py_sample=[])
    cfg = case["cfg"]
    for key, val in (("nsub", 1), ("cplx", 0), ("comp", 0), ("checksum", 0), ("order", "<")):
        if cfg[key] != val:
            yield dict(case, cfg=dict(cfg, **{key: val}))
