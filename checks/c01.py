"""C01 - RF write/read round-trip fidelity (DESIGN.md section 4, C01)."""
from __future__ import annotations

import os

from hypothesis import strategies as st

from vlib import rfharness, rfmodel, strategies as S
from vlib.campaign import Result

PID = "C01"
LEVEL = "exploration"
TECHNIQUE = "property-based testing (Hypothesis) against an exact big-integer reference model; C path under ASan/UBSan"
RULE = (
    "Hypothesis draws (writer configuration, valid write sequence, path in {python writer, C API driver under "
    "ASan+UBSan}, 6-12 read ranges on file/block/gap edges); every read is compared block-for-block and "
    "byte-for-byte with an independent integer model. A case is non-trivial when the recording spans >= 2 files "
    "and at least one read endpoint is the first or last sample of a file window; distinct = SHA-1 of the case."
)
ASSUMPTIONS = [
    "overlay build of /repo against system HDF5 1.10.8 (the shipped wheel uses 1.14.5)",
    "samples per file capped (4096 quick / 65536 thorough) to keep files small; magnitudes exercised through start indices",
    "h5py returns some big-endian stored types in native order; bytes are compared after a pure byte swap",
]
FLOORS = {"nontrivial": 0.25, "nonms": 0.10, "bigendian": 0.05, "cplxint": 0.05, "multisub": 0.05,
          "filter": 0.05, "cpath": 0.05, "start-inexact-in-double": 0.03}


def budget(tier):
    if tier == "quick":
        return {"examples": 140, "shards": 1, "examples2": 150}
    return {"examples": 400, "shards": 16, "examples2": 100}


# second stage: the same clauses (every written sample returned at its index, nothing unwritten returned, contiguous data
# as one block) over recordings made in several sessions / top-level directories
SESSION_KEEP = ("union-read-missing-sample", "union-read-wrong-value", "union-read-unwritten-sample", "union-blocks",
                "union-read-vs-blocks", "union-read-vector", "union-read-exception")


def strategy2(tier):
    from checks import c11
    return c11.session_strategy(tier)


@st.composite
def _cases(draw, tier):
    cap = 4096 if tier == "quick" else draw(st.sampled_from([4096, 4096, 4096, 65536]))
    cfg = draw(S.rf_configs(spf_cap=cap))
    ops = draw(S.write_ops(cfg, max_calls=8 if tier == "quick" else 12, max_files=4))
    m = rfmodel.Model(cfg)
    for op in ops:
        m.apply(op)
    reads = draw(S.read_ranges(m, draw(st.integers(6, 12))))
    path = draw(st.sampled_from(["py", "py", "c"]))
    case = {"cfg": cfg, "ops": ops, "reads": reads, "path": path}
    if path == "py":
        # how the arguments are passed (array_like: strided views, lists, int64) and how the session ends
        for op in ops:
            f = draw(st.sampled_from(["plain", "plain", "plain", "strided", "list", "int64"]))
            if f != "plain":
                op["argform"] = f
        case["end"] = draw(st.sampled_from(["close", "close", "with", "del"]))
    return case


def strategy(tier):
    return _cases(tier)


def directed_cases(tier):
    # the design-phase probe (F1): 10^6/3 Hz, first sample of file rf@2093805738.000
    cfg = {"kind": "i", "size": 2, "order": "<", "cplx": 0, "form": "struct", "nsub": 1, "n": 1000000, "d": 3,
           "F": 1000, "S": 3600, "cont": 0, "comp": 0, "checksum": 0, "salt": 1, "uuid": "verif",
           "start": 697935246000000 - 5}
    out = [{"cfg": cfg, "ops": [{"op": "w", "idx": 0, "len": 12}],
            "reads": [[697935246000000 - 5, 697935246000000], [697935246000000, 697935246000000]], "path": "py"}]
    # feature interactions that must be present in every run: multi-block calls x {continuous, gapped} x several
    # subchannels x {struct complex, interleaved, real} through the Python writer (the extension splits block calls in
    # continuous mode) and the C API, with a gap inside a file and one across a file boundary
    base = {"order": "<", "n": 100, "d": 1, "F": 1000, "S": 10, "comp": 0, "checksum": 0, "salt": 11, "uuid": "verif",
            "start": 170000000020}
    ops = [{"op": "w", "idx": 0, "len": 30}, {"op": "b", "len": 90, "g": [40, 70, 130], "d": [0, 20, 50]},
           {"op": "b", "len": 25, "g": [200, 260], "d": [0, 5]}]
    reads = [[170000000015, 170000000400], [170000000090, 170000000150], [170000000100, 170000000100]]
    for cont in (1, 0):
        for kind, size, cplx, form, nsub in (("i", 2, 0, "struct", 3), ("i", 2, 1, "struct", 2), ("f", 4, 1, "native", 4),
                                             ("u", 1, 1, "interleaved", 2)):
            c = dict(base, kind=kind, size=size, cplx=cplx, form=form, nsub=nsub, cont=cont)
            for path in ("py", "c"):
                out.append({"cfg": c, "ops": [dict(o) for o in ops], "reads": reads, "path": path})
    return out


def effective_ops(case):
    """The C API documents one contiguous block per call in continuous mode (the Python extension
    splits block writes itself); the C path therefore issues each block as its own call."""
    if case["path"] != "c" or not case["cfg"]["cont"]:
        return case["ops"]
    out = []
    for op in case["ops"]:
        if op["op"] != "b":
            out.append(op)
            continue
        for i, g in enumerate(op["g"]):
            ln = (op["d"][i + 1] if i + 1 < len(op["g"]) else op["len"]) - op["d"][i]
            out.append({"op": "w", "idx": g, "len": ln})
    return out


def build_model(case):
    m = rfmodel.Model(case["cfg"])
    for op in effective_ops(case):
        if m.why_invalid(op) is None:
            m.apply(op)
        else:
            m.skip_call()
    return m


def execute(case, top):
    """Write the case.  Returns list of failure tuples."""
    cfg, ops = case["cfg"], effective_ops(case)
    ch = os.path.join(top, "ch0")
    fails = []
    if case["path"] == "py":
        res = rfharness.run_python(cfg, ops, ch, end=case.get("end", "close"))
        for i, r in enumerate(res[:-1]):
            if r["status"] != "ok":
                fails.append(("valid-write-rejected:py", "op %d %r -> %s" % (i, ops[i], r["ret"])))
                break
    else:
        rc, ev, err = rfharness.run_driver(cfg, ops, ch, top, asan=True)
        dr = rfharness.driver_results(ev, len(ops))
        if rc in (97, 98) or "Sanitizer" in err or "runtime error" in err:
            fails.append(("sanitizer:c", err[-1500:]))
        elif rc != 0:
            fails.append(("driver-crash:c", "rc=%s %s" % (rc, err[-800:])))
        for i in range(len(ops) + 2):
            if i not in dr:
                fails.append(("driver-incomplete:c", "no END for op %d; rc=%s" % (i, rc)))
                break
            if dr[i]["rc"] != 0:
                fails.append(("valid-write-rejected:c", "op %d rc=%d" % (i, dr[i]["rc"])))
                break
    return fails


def run_case(case):
    if case.get("kind") == "sessions":
        from checks import c11
        return c11.run_sessions(case, SESSION_KEEP)
    res = Result()
    cfg = case["cfg"]
    m = build_model(case)
    classify(case, m, res)
    with rfharness.scratch("c01") as top:
        for f in execute(case, top):
            res.fail(*f)
        if res.failures:
            return res
        try:
            with rfharness.quiet_fds():
                reader = rfharness.drf().DigitalRFReader(top)
        except Exception as e:
            res.fail("reader-open", "%s: %s" % (type(e).__name__, e))
            return res
        try:
            b = reader.get_bounds("ch0")
            mb = m.bounds()
            if mb is None:
                if b != (None, None):
                    res.fail("bounds", "bounds %r for an empty channel" % (b,))
            elif tuple(int(x) for x in b) != mb:
                res.fail("bounds", "bounds %r != model %r" % (b, mb))
            seen = set()
            for a, e in case["reads"]:
                res.evaluations += 1
                f = rfharness.check_read(cfg, m, reader, "ch0", a, e)
                if f and f[0] not in seen:
                    seen.add(f[0])
                    res.fail(f[0] + ":" + case["path"], f[1])
        finally:
            reader.close()
    return res


def classify(case, m, res):
    cfg = case["cfg"]
    stamps = m.file_windows()
    edges = set()
    for ms in stamps:
        lo, hi = rfmodel.window(cfg, ms)
        edges.update((lo, hi - 1))
    on_edge = any(a in edges or e in edges for a, e in case["reads"])
    res.nontrivial = len(stamps) >= 2 and on_edge
    if (1000 * cfg["n"]) % cfg["d"] != 0 or True:
        # sample times not aligned to milliseconds <=> (k*d*1000) % n != 0 for some k <=> n does not divide d*1000
        if (cfg["d"] * 1000) % cfg["n"] != 0:
            res.cls("nonms")
    if float(cfg["start"]) != cfg["start"]:
        res.cls("start-inexact-in-double")
    if cfg["order"] == ">" and cfg["size"] > 1:
        res.cls("bigendian")
    if cfg["cplx"] and cfg["kind"] != "f":
        res.cls("cplxint")
    if cfg["nsub"] > 1:
        res.cls("multisub")
    if cfg["comp"] or cfg["checksum"]:
        res.cls("filter")
    if case["path"] == "c":
        res.cls("cpath")
    if cfg["cont"]:
        res.cls("continuous")
    if len(stamps) >= 2:
        res.cls("multifile")
    if any(op["op"] == "b" for op in case["ops"]):
        res.cls("blocks")
    if any(op.get("argform") == "strided" for op in case["ops"]):
        res.cls("strided-arguments")
    if case.get("end") == "del":
        res.cls("ended-without-close")
    if len({rfmodel.subdir_s(cfg, r[0]) for r in m.runs} | {rfmodel.subdir_s(cfg, r[0] + r[1] - 1) for r in m.runs}) > 1:
        res.cls("multisubdir")


def shrink_candidates(case):
    if case.get("kind") == "sessions":
        from checks import c11
        yield from c11.session_shrink(case)
        return
    ops = case["ops"]
    # fewer reads
    for i in range(len(case["reads"])):
        if len(case["reads"]) > 1:
            yield dict(case, reads=case["reads"][:i] + case["reads"][i + 1:])
    # drop ops (re-basing is not needed: indices are absolute-relative and stay valid when ops are dropped)
    for i in range(len(ops) - 1, -1, -1):
        if len(ops) > 1:
            yield dict(case, ops=ops[:i] + ops[i + 1:])
    # shorten ops from the end
    for i, op in enumerate(ops):
        if op["op"] == "w" and op["len"] > 1:
            for nl in (1, op["len"] // 2, op["len"] - 1):
                if 0 < nl < op["len"] and (i + 1 == len(ops)):
                    yield dict(case, ops=ops[:i] + [dict(op, len=nl)] + ops[i + 1:])
        if op["op"] == "b" and len(op["g"]) > 1:
            k = len(op["g"]) - 1
            yield dict(case, ops=ops[:i] + [dict(op, g=op["g"][:k], d=op["d"][:k], len=op["d"][k])] + ops[i + 1:])
    cfg = case["cfg"]
    for key, val in (("nsub", 1), ("cplx", 0), ("comp", 0), ("checksum", 0), ("order", "<"), ("form", "struct")):
        if cfg[key] != val:
            yield dict(case, cfg=dict(cfg, **{key: val}))
    if case["path"] == "c":
        yield dict(case, path="py")


# ---- known-finding predicates -------------------------------------------
def float_window_differs(case, sig=None, detail=None):
    """Reader's long-double candidate window != exact window for some read of the case."""
    import numpy as np

    cfg = case["cfg"]
    sps = np.longdouble(np.uint64(cfg["n"])) / np.longdouble(np.uint64(cfg["d"]))
    for a, e in case["reads"]:
        fa = int(np.uint64(np.uint64(a) / sps * 1000))
        fe = int(np.uint64(np.uint64(e) / sps * 1000))
        if fa != (a * cfg["d"] * 1000) // cfg["n"] or fe != (e * cfg["d"] * 1000) // cfg["n"]:
            return True
        sa = int(np.uint64(np.uint64(a) / sps))
        if sa != (a * cfg["d"]) // cfg["n"]:
            return True
    return False


PREDICATES = {"float_window_differs": float_window_differs}
