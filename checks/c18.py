"""C18 - cp / mv / ln transfer exactly the listed set (DESIGN.md section 4, C18)."""
from __future__ import annotations

import contextlib
import datetime
import io
import os
import shutil

import numpy as np
from hypothesis import strategies as st

from vlib import lstree as L, rfharness, rfmodel, treeutil
from vlib.campaign import Result

PID = "C18"
LEVEL = "exploration"
TECHNIQUE = "property-based testing: generated trees x generated drf cp/mv/ln command lines, differential against lsdrf on the pristine tree; byte/inode/link checks and reader equality on a real recording"
RULE = (
    "A C14 tree (placeholder files) plus one real channel 'real' (RF recording with gaps and its 'metadata' Digital "
    "Metadata channel, written by the real writers) is built; Hypothesis draws a command in {cp, mv, ln, ln "
    "--symbolic} with -c channel lists (none / one / comma list / repeated), --only, -R, -s/-e as ISO strings, "
    "float stamps or '+offset', the include flags, channel names spelled plain / with a trailing slash / with a leading ./, the destination optionally reached through a symbolic link to a directory at another depth, and the destination on the same or on another file system, the source optionally reached through a symbolic link, optionally two new files arriving in the source after the first or the last transfer, run through digital_rf.drf_command.main. Oracle: the relative "
    "paths of lsdrf(src, same options) on the pristine tree; the destination must hold exactly that set (plus parent "
    "directories only), byte-identical / same inode / symlink to the source; cp and ln leave the source snapshot "
    "unchanged, mv removes exactly the transferred files; when the real channel's properties and data files were "
    "transferred a DigitalRFReader on the destination returns the same blocks as one on the source for every "
    "transferred file's window. Non-trivial: a time window or a channel list on a tree with >= 2 channels."
)
RULE += ' Since rounds 7-8: destinations holding stale files of equal size and time, read-only sources, channel lists naming nothing, prefix-related channel names.'
ASSUMPTIONS = ["placeholder channels hold empty files; only the channel 'real' is opened by a reader"]
FLOORS = {"nontrivial": 0.5}
REAL_T0 = 1700000000  # multiple of 10


def budget(tier):
    return {"examples": 500 if tier == "quick" else 1200, "shards": 1 if tier == "quick" else 16}


REAL_CFG = {"kind": "i", "size": 2, "order": "<", "cplx": 1, "form": "struct", "nsub": 2, "n": 100, "d": 1, "F": 1000, "S": 10,
            "cont": 0, "comp": 0, "checksum": 0, "salt": 42, "uuid": "verif", "start": REAL_T0 * 100 + 250}
REAL_OPS = [{"op": "w", "idx": 0, "len": 300}, {"op": "w", "idx": 420, "len": 480}, {"op": "w", "idx": 1950, "len": 120}]


def build_real(top):
    ch = os.path.join(top, "real")
    rfharness.run_python(REAL_CFG, REAL_OPS, ch)
    md = os.path.join(ch, "metadata")
    os.makedirs(md)
    w = rfharness.drf().DigitalMetadataWriter(md, 10, 2, 100, 1, "metadata")
    for k in (REAL_CFG["start"], REAL_CFG["start"] + 420, REAL_CFG["start"] + 1950):
        w.write(k, {"fc": float(k), "id": "s%d" % k})


@st.composite
def _cases(draw, tier):
    tree = draw(L.trees())
    chans = [p for p, nd in L.all_channels(tree) if nd["kind"] != "plain"]
    top_children = [c["name"] for c in tree["children"]] + ["real"]
    ts, _subs = L.all_times(tree)
    real_ts = [REAL_T0 * 1000 + x for x in (0, 1000, 2000, 3000, 4000, 6000, 7000, 9000, 19000, 20000)]
    pool = sorted(set(ts + real_ts))
    case = {"tree": tree, "cmd": draw(st.sampled_from(["cp", "cp", "mv", "mv", "ln", "lnsym"]))}
    mode = draw(st.integers(0, 7))
    case["src"] = "top"
    case["chs"] = None
    if mode == 6:
        # a channel list that names nothing that exists (a mistyped name, a channel not recorded yet): nothing is transferred
        case["chs"] = [[draw(st.sampled_from(["ch9", "ch", "ch100"]))]]
    elif mode == 7:
        case["chs"] = [[draw(st.sampled_from(top_children)), "ch9"]]
    if mode == 1:
        case["chs"] = [[draw(st.sampled_from(top_children))]]
    elif mode == 2:
        k = draw(st.lists(st.sampled_from(top_children), min_size=2, max_size=3, unique=True))
        case["chs"] = [k]  # one -c with a comma list
    elif mode == 3:
        k = draw(st.lists(st.sampled_from(top_children), min_size=2, max_size=3, unique=True))
        case["chs"] = [[x] for x in k]  # repeated -c
    elif mode == 4:
        case["src"] = "top/real"
    elif mode == 5 and chans:
        case["src"] = draw(st.sampled_from(chans))
    case["only"] = draw(st.sampled_from([False, False, True]))
    case["reverse"] = draw(st.booleans())
    w = draw(st.integers(0, 3))
    case["start"] = case["end"] = None

    def tp():
        return draw(st.sampled_from(pool)) + draw(st.sampled_from([0, 0, 0, -1, 1, 500, -1000]))

    if w in (1, 3):
        case["start"] = tp()
    if w in (2, 3):
        case["end"] = tp()
    if case["start"] is not None and case["end"] is not None and case["end"] < case["start"]:
        case["start"], case["end"] = case["end"], case["start"]
    case["tfmt"] = draw(st.sampled_from(["iso", "float", "plus"]))
    # destination on another file system (rename cannot be used; hard links are impossible there)
    case["xdev"] = case["cmd"] != "ln" and draw(st.integers(0, 3)) == 0
    # the source may be reached through a symbolic link, and a live recorder may add files while the command runs
    case["symlink"] = draw(st.integers(0, 4)) == 0
    case["arrive"] = draw(st.sampled_from([None, None, None, "first", "last", "last"]))
    case["drf"] = draw(st.sampled_from([True, True, True, False]))
    case["dmd"] = draw(st.sampled_from([True, True, True, False]))
    case["drfprops"] = draw(st.sampled_from([None, None, True, False]))
    case["dmdprops"] = draw(st.sampled_from([None, None, True, False]))
    # spelling of the -c channel names (all name the same directory) and a destination reached through a symbolic link to
    # a directory at another depth (a relative link computed lexically would dangle there)
    case["chform"] = draw(st.sampled_from(["plain", "plain", "slash", "dot"]))
    case["destlink"] = draw(st.integers(0, 3)) == 0
    # refreshing a destination that an earlier `drf ln` (hard or symbolic links) made: the copy may be refused (source and
    # destination are the same file), but "cp leaves the source unchanged" holds whatever happens
    # a destination that is not empty: some of the files about to be transferred are already there in a STALE version of
    # the same size and modification time (an earlier archive of a period that was re-generated; rsync -t); cp and mv
    # replace them
    case["predest"] = case["cmd"] in ("cp", "mv") and draw(st.integers(0, 3)) == 0
    case["rosrc"] = draw(st.integers(0, 3)) == 0  # (cp / ln only) the source tree is read-only
    case["prelink"] = draw(st.sampled_from([None, None, None, None, "ln", "lnsym", "self", "same"])) if case["cmd"] == "cp" and not case["xdev"] else None
    return case


def strategy(tier):
    return _cases(tier)


def directed_cases(tier):
    """Two RF channels recorded at the same time (same subdirectory names; one name a character prefix of the other) plus a
    metadata channel, copied / moved / linked channel by channel: properties only, a window that selects data of one channel
    only, data without properties, a channel list that names nothing."""
    t0 = 1500000000

    def rfch(name, stamps):
        return {"name": name, "kind": "rf", "S": 10, "F": 1000, "strays": [], "children": [],
                "subdirs": [{"t": t, "files": [{"name": L.rf_name("rf", ms), "ms": ms} for ms in mss], "strays": []} for t, mss in stamps]}

    tree = {"name": "top", "kind": "plain", "subdirs": [], "strays": [], "children": [
        rfch("ch1", [(t0, [t0 * 1000, t0 * 1000 + 1000]), (t0 + 10, [(t0 + 10) * 1000])]),
        rfch("ch10", [(t0, [t0 * 1000 + 2000]), (t0 + 10, [(t0 + 11) * 1000, (t0 + 12) * 1000])]),
        {"name": "chC", "kind": "dmd", "S": 10, "F": 1000, "strays": [], "children": [],
         "subdirs": [{"t": t0, "files": [{"name": L.dmd_name("metadata", t0 * 1000), "ms": t0 * 1000}], "strays": []}]}]}
    base = {"tree": tree, "src": "top", "only": False, "reverse": False, "start": None, "end": None, "tfmt": "iso", "xdev": False,
            "symlink": False, "arrive": None, "drf": True, "dmd": True, "drfprops": None, "dmdprops": None, "chform": "plain",
            "destlink": False, "prelink": None, "predest": False, "rosrc": False}
    out = []
    for cmd in ("cp", "mv", "ln"):
        for chs in ([["ch1", "ch10"]], [["ch10"], ["ch1"], ["chC"]]):
            out.append(dict(base, cmd=cmd, chs=chs, drf=False, dmd=False, drfprops=True, dmdprops=True))          # properties only
            out.append(dict(base, cmd=cmd, chs=chs, start=(t0 + 11) * 1000))                                        # data of ch10 only
            out.append(dict(base, cmd=cmd, chs=chs, drfprops=False, dmdprops=False, start=(t0 + 10) * 1000))        # one subdirectory, no properties
        out.append(dict(base, cmd=cmd, chs=[["ch9"]]))
        out.append(dict(base, cmd=cmd, chs=None))
    return out


def fmt_time(ms, fmt):
    if fmt == "float":
        return "%d.%03d" % (ms // 1000, ms % 1000)
    d = L.to_dt(ms)
    return d.strftime("%Y-%m-%dT%H:%M:%S.") + "%03dZ" % (ms % 1000)


def argv_for(case, src, dest):
    cmd = case["cmd"]
    a = ["ln" if cmd == "lnsym" else cmd, src, dest]
    if cmd == "lnsym":
        a.append("--symbolic")
    form = case.get("chform", "plain")
    for grp in case["chs"] or []:
        a += ["-c", ",".join({"plain": x, "slash": x + "/", "dot": "./" + x}[form] for x in grp)]
    if case["only"]:
        a.append("--only")
    if case["reverse"]:
        a.append("-R")
    if case["start"] is not None:
        a += ["-s", fmt_time(case["start"], "iso" if case["tfmt"] == "plus" else case["tfmt"])]
    if case["end"] is not None:
        if case["tfmt"] == "plus" and case["start"] is not None:
            off = case["end"] - case["start"]
            a += ["-e", "+%d.%03d" % (off // 1000, off % 1000)]
        else:
            a += ["-e", fmt_time(case["end"], "float" if case["tfmt"] == "float" else "iso")]
    a.append("--drf" if case["drf"] else "--nodrf")
    a.append("--dmd" if case["dmd"] else "--nodmd")
    if case["drfprops"] is not None:
        a.append("--drfprops" if case["drfprops"] else "--nodrfprops")
    if case["dmdprops"] is not None:
        a.append("--dmdprops" if case["dmdprops"] else "--nodmdprops")
    return a


def reader_for(base, channel_dir, tag):
    """A reader that sees only the given channel (placeholder channels are not real HDF5)."""
    rtop = os.path.join(base, "rd-" + tag)
    os.makedirs(rtop, exist_ok=True)
    link = os.path.join(rtop, "real")
    if not os.path.lexists(link):
        os.symlink(channel_dir, link)
    with rfharness.quiet_fds():
        return rfharness.drf().DigitalRFReader(rtop)


def files_of(snap):
    return {k: v for k, v in snap.items() if v[0] != "d"}


def _run_case(case):
    res = Result()
    drf = rfharness.drf()
    from digital_rf import drf_command

    nchan = len([1 for _p, nd in L.all_channels(case["tree"]) if nd["kind"] != "plain"]) + 2
    res.nontrivial = (case["start"] is not None or case["end"] is not None or case["chs"] is not None) and nchan >= 2
    res.cls("cmd:" + case["cmd"])
    if case["chs"]:
        res.cls("channel-list")
    if case["start"] is not None or case["end"] is not None:
        res.cls("window")
    with rfharness.scratch("c18") as base:
        L.build(case["tree"], base)
        top = os.path.join(base, "top")
        with rfharness.quiet_fds():
            build_real(top)
        src = os.path.join(base, case["src"])
        out_root = os.path.join(base, "out")
        xroot = None
        if case.get("xdev"):
            from vlib.campaign import VERIF
            xroot = os.path.join(VERIF, ".build", "scratch-c18-%d" % os.getpid())
            shutil.rmtree(xroot, ignore_errors=True)
            out_root = os.path.join(xroot, "out")
            res.cls("cross-device")
        dest_alias = None
        if case.get("destlink") and not xroot:
            out_root = os.path.join(base, "out", "mnt", "raid3", "projects", "archive")
            os.makedirs(out_root)
            dest_alias = os.path.join(base, "archive")
            os.symlink(out_root, dest_alias)
            res.cls("destination-through-symlink")
        dest = os.path.join(out_root, os.path.basename(src) if case["src"] != "top" else "top")
        os.makedirs(os.path.dirname(dest), exist_ok=True)
        kwargs = dict(recursive=not case["only"], reverse=case["reverse"], starttime=L.to_dt(case["start"]), endtime=L.to_dt(case["end"]),
                      include_drf=case["drf"], include_dmd=case["dmd"], include_drf_properties=case["drfprops"],
                      include_dmd_properties=case["dmdprops"])
        pairs = []
        if case["chs"]:
            for grp in case["chs"]:
                for ch in grp:
                    pairs.append((os.path.join(src, ch), os.path.join(dest, ch)))
        else:
            pairs.append((src, dest))
        expected = {}  # dest abs path -> src abs path
        try:
            for s, d in pairs:
                for f in drf.lsdrf(s, **kwargs):
                    expected[os.path.join(d, os.path.relpath(f, s))] = f
        except Exception as e:
            res.fail("listing-exception", "%s: %s" % (type(e).__name__, e))
            return res
        before = treeutil.snapshot(top)
        inode = {f: os.lstat(f).st_ino for f in expected.values()}
        # source reads of the real channel, per transferred rf file
        real_reads = {}
        real_files = [f for f in expected.values() if os.path.relpath(f, top).startswith("real" + os.sep)
                      and os.path.basename(f).startswith("rf@")]
        if real_files:
            rd = reader_for(base, os.path.join(top, "real"), "src")
            for f in real_files:
                stamp = os.path.basename(f)[3:-3]
                ms = int(stamp.split(".")[0]) * 1000 + int(stamp.split(".")[1])
                lo, hi = rfmodel.window(REAL_CFG, ms)
                real_reads[f] = (lo, hi - 1, [(int(k), np.ascontiguousarray(v).tobytes()) for k, v in rd.read(lo, hi - 1, "real").items()])
            rd.close()
        src_cmd = src
        if case.get("symlink"):
            os.symlink(top, os.path.join(base, "linked"))
            src_cmd = os.path.join(base, "linked" + case["src"][3:])
            res.cls("symlinked-source")
        argv = argv_for(case, src_cmd, dest if dest_alias is None else os.path.join(dest_alias, os.path.basename(dest)))
        if case["chs"] and case.get("chform", "plain") != "plain":
            res.cls("channel-name-spelling")
        arrivals = {}
        counter = [0]
        real_fns = {"copy2": shutil.copy2, "move": shutil.move, "link": os.link, "symlink": os.symlink}

        def arrive():
            d_ = os.path.join(top, "real", L.subdir_name(REAL_T0 + 100))
            os.makedirs(d_, exist_ok=True)
            for i_ in range(2):
                p_ = os.path.join(d_, "rf@%d.000.h5" % (REAL_T0 + 100 + i_))
                with open(p_, "wb") as f_:
                    f_.write(b"arrival-%d" % i_)
                arrivals[os.path.relpath(p_, top)] = treeutil.snapshot(d_)[os.path.basename(p_)]

        def wrap(name):
            fn = real_fns[name]

            def w_(*a, **k):
                r_ = fn(*a, **k)
                counter[0] += 1
                if not arrivals and ((case.get("arrive") == "first" and counter[0] == 1)
                                     or (case.get("arrive") == "last" and counter[0] == len(expected))):
                    arrive()
                return r_
            return w_

        if case.get("arrive") and expected:
            shutil.copy2, shutil.move, os.link, os.symlink = wrap("copy2"), wrap("move"), wrap("link"), wrap("symlink")
            res.cls("files-arrive-during-command")
        if case.get("predest") and not case.get("prelink"):
            res.cls("destination-holds-stale-versions")
            for di, (dpath_, spath_) in enumerate(sorted(expected.items())):
                if di % 2 == 0 and os.path.isfile(spath_) and not os.path.islink(spath_):
                    os.makedirs(os.path.dirname(dpath_), exist_ok=True)
                    with open(spath_, "rb") as f_:
                        data_ = bytearray(f_.read())
                    if data_:
                        data_[len(data_) // 2] ^= 0x5A
                    with open(dpath_, "wb") as f_:
                        f_.write(bytes(data_))
                    st_ = os.stat(spath_)
                    os.utime(dpath_, ns=(st_.st_atime_ns, st_.st_mtime_ns))
        if case.get("prelink"):
            res.cls("copy-onto-links-to-the-source")
            pre = argv_for(dict(case, cmd=case["prelink"]), src_cmd, argv[2]) if case["prelink"] in ("ln", "lnsym") else None
            if case["prelink"] == "same":
                argv[2] = argv[1]  # drf cp SRC SRC
            elif case["prelink"] == "self":
                # the destination directory is a symbolic link to the source directory
                if os.path.lexists(dest):
                    return res
                os.symlink(src, dest)
            refused = None
            with contextlib.redirect_stdout(io.StringIO()), contextlib.redirect_stderr(io.StringIO()):
                try:
                    if pre:
                        try:
                            drf_command.main(pre)
                        except (Exception, SystemExit) as e:
                            res.fail("command-exception:%s" % type(e).__name__, "argv %r: %s" % (pre[:1] + pre[3:], e))
                            return res
                    try:
                        drf_command.main(argv)
                    except (Exception, SystemExit) as e:
                        refused = e  # e.g. shutil.SameFileError: acceptable - damage to the source is not
                finally:
                    shutil.copy2, shutil.move, os.link, os.symlink = real_fns["copy2"], real_fns["move"], real_fns["link"], real_fns["symlink"]
            after = treeutil.snapshot(top)
            if arrivals:
                after = {k: v for k, v in after.items() if k not in arrivals and not (v[0] == "d" and k == os.path.dirname(next(iter(arrivals))))}
            if after != before:
                res.fail("source-changed:cp-onto-links", "%s (cp %s)" % (treeutil.diff(before, after), "was refused: %r" % (refused,) if refused else "ran"))
            res.evaluations += len(expected)
            return res
        ro_dirs = []
        from vlib import unpriv
        if case.get("rosrc") and case["cmd"] in ("cp", "ln", "lnsym") and not case.get("arrive") and not case.get("predest") and unpriv.ENFORCED:
            # the source is an archive that nobody may modify: files r--r--r--, directories r-xr-xr-x.  Copying and
            # linking only read it
            res.cls("read-only-source")
            for dp_, dn_, fn_ in os.walk(top):
                for f_ in fn_:
                    if not os.path.islink(os.path.join(dp_, f_)):
                        os.chmod(os.path.join(dp_, f_), 0o444)
                ro_dirs.append(dp_)
            for dp_ in ro_dirs:
                os.chmod(dp_, 0o555)
        try:
            with contextlib.redirect_stdout(io.StringIO()), contextlib.redirect_stderr(io.StringIO()):
                try:
                    drf_command.main(argv)
                finally:
                    shutil.copy2, shutil.move, os.link, os.symlink = real_fns["copy2"], real_fns["move"], real_fns["link"], real_fns["symlink"]
                    for dp_ in ro_dirs:
                        os.chmod(dp_, 0o755)
        except SystemExit as e:
            res.fail("command-exit", "argv %r exit %r" % (argv[:1] + argv[3:], e.code))
            return res
        except Exception as e:
            res.fail("command-exception:%s" % type(e).__name__, "argv %r: %s" % (argv[:1] + argv[3:], e))
            return res
        res.evaluations += len(expected)
        after_dest = treeutil.snapshot(out_root, content=False) if os.path.isdir(out_root) else {}
        got_files = {os.path.join(out_root, k) for k, v in after_dest.items() if v[0] != "d"}
        got_dirs = {os.path.join(out_root, k) for k, v in after_dest.items() if v[0] == "d"}
        missing = set(expected) - got_files
        extra = got_files - set(expected)
        # files that arrived while the command ran may or may not have been transferred
        arr_dest = {}
        for rel_ in arrivals:
            for s_, d_ in pairs:
                ap = os.path.join(top, rel_)
                if ap.startswith(s_ + os.sep):
                    arr_dest[os.path.join(d_, os.path.relpath(ap, s_))] = rel_
        extra -= set(arr_dest)
        if missing:
            res.fail("dest-missing:" + case["cmd"], "%s (argv %r)" % (sorted(os.path.relpath(x, out_root) for x in missing)[:3], argv[3:]))
        if extra:
            res.fail("dest-extra:" + case["cmd"], "%s (argv %r)" % (sorted(os.path.relpath(x, out_root) for x in extra)[:3], argv[3:]))
        need_dirs = set()
        for f in list(expected) + [a_ for a_ in arr_dest if a_ in got_files]:
            d = os.path.dirname(f)
            while len(d) > len(out_root):
                need_dirs.add(d)
                d = os.path.dirname(d)
        if got_dirs - need_dirs:
            res.fail("dest-extra-dirs:" + case["cmd"], "%s" % sorted(os.path.relpath(x, out_root) for x in got_dirs - need_dirs)[:3])
        # content / link identity
        for dpath, spath in expected.items():
            if dpath not in got_files:
                continue
            srel = os.path.relpath(spath, top)
            if case["cmd"] == "lnsym":
                if not os.path.islink(dpath) or os.path.realpath(dpath) != os.path.realpath(spath):
                    res.fail("symlink-target", "%s -> %s" % (dpath, os.readlink(dpath) if os.path.islink(dpath) else "not a link"))
                    break
            elif case["cmd"] == "ln":
                if os.lstat(dpath).st_ino != inode[spath]:
                    res.fail("hardlink-inode", os.path.relpath(dpath, out_root))
                    break
            else:
                h = treeutil.snapshot(os.path.dirname(dpath))[os.path.basename(dpath)]
                if h[:3] != before[srel][:3]:
                    res.fail("content-differs:" + case["cmd"], "%s %r vs source %r" % (srel, h[:2], before[srel][:2]))
                    break
        # source
        after = treeutil.snapshot(top)
        if arrivals:
            # nothing may be lost: an arrived file is still in the source, or identical in the destination
            for rel_, meta_ in arrivals.items():
                in_src = files_of(after).get(rel_, (None,))[:3] == meta_[:3]
                dps = [d_ for d_, r_ in arr_dest.items() if r_ == rel_ and d_ in got_files]
                in_dst = any(treeutil.snapshot(os.path.dirname(d_)).get(os.path.basename(d_), (None,))[:3] == meta_[:3] or
                             os.path.islink(d_) for d_ in dps)
                if not in_src and not in_dst:
                    res.fail("arrived-file-lost:" + case["cmd"], "%s is neither in the source nor in the destination" % rel_)
                if case["cmd"] != "mv" and not in_src:
                    res.fail("source-changed:" + case["cmd"], "arrived file %s removed from the source" % rel_)
            after = {k: v for k, v in after.items() if k not in arrivals and not (v[0] == "d" and k == os.path.dirname(next(iter(arrivals))))}
        if case["cmd"] == "mv":
            moved = {os.path.relpath(s, top) for s in expected.values()}
            want = {k: v for k, v in files_of(before).items() if k not in moved}
            if files_of(after) != want:
                res.fail("source-after-mv", "%s" % treeutil.diff(want, files_of(after)))
        else:
            if after != before:
                res.fail("source-changed:" + case["cmd"], "%s" % treeutil.diff(before, after))
        # reader on the destination
        dest_real = None
        for dpath, spath in expected.items():
            if os.path.relpath(spath, top) == os.path.join("real", "drf_properties.h5"):
                dest_real = os.path.dirname(dpath)
        if dest_real and real_reads and not res.failures:
            res.cls("reader-compared")
            try:
                rd = reader_for(base, dest_real, "dst")
                for f, (lo, hi, blocks) in real_reads.items():
                    got = [(int(k), np.ascontiguousarray(v).tobytes()) for k, v in rd.read(lo, hi, "real").items()]
                    if got != blocks:
                        res.fail("dest-reader-differs:" + case["cmd"], "window [%d,%d] of %s: %r vs source %r" % (
                            lo, hi, os.path.basename(f), [(k, len(b)) for k, b in got], [(k, len(b)) for k, b in blocks]))
                        break
                rd.close()
            except Exception as e:
                res.fail("dest-reader-exception:" + case["cmd"], "%s: %s" % (type(e).__name__, e))
        if xroot:
            shutil.rmtree(xroot, ignore_errors=True)
    return res


def run_case(case):
    from vlib.campaign import VERIF
    try:
        return _run_case(case)
    finally:
        shutil.rmtree(os.path.join(VERIF, ".build", "scratch-c18-%d" % os.getpid()), ignore_errors=True)


def shrink_candidates(case):
    for key, val in (("chs", None), ("only", False), ("reverse", False), ("start", None), ("end", None), ("drfprops", None),
                     ("dmdprops", None), ("tfmt", "iso"), ("drf", True), ("dmd", True), ("xdev", False), ("symlink", False), ("arrive", None),
                     ("chform", "plain"), ("destlink", False), ("prelink", None), ("predest", False), ("rosrc", False)):
        if key not in case:
            continue
        if case[key] != val:
            yield dict(case, **{key: val})
    tree = case["tree"]
    for i in range(len(tree["children"])):
        t2 = dict(tree, children=tree["children"][:i] + tree["children"][i + 1:])
        names = {p for p, _ in L.all_channels(t2)} | {"top/real"}
        if case["src"] in names and all(ch in [c["name"] for c in t2["children"]] + ["real"] for g in (case["chs"] or []) for ch in g):
            yield dict(case, tree=t2)
