"""C07 - continuous-mode gap fill semantics (DESIGN.md section 4, C07)."""
from __future__ import annotations

import os

from hypothesis import strategies as st

from checks import c01, c04
from vlib import rfharness, rfmodel, strategies as S
from vlib.campaign import Result

PID = "C07"
LEVEL = "exploration"
TECHNIQUE = "property-based testing: exhaustive element-type cells x generated gap layouts in continuous mode against the reference model; fill judged from stored bytes"
RULE = (
    "All 72 cells (kind,size,byte order) x real/complex x {1,3} subchannels are run with three fixed gap layouts "
    "(gap inside a file + head/tail gaps; gap spanning a whole file; gap across a subdirectory) and Hypothesis adds "
    "random layouts, filters (compression / checksum) and both writer paths. Oracle: reference model - without "
    "filters every existing file exposes its whole window as one block, unwritten slots satisfy the documented fill "
    "predicate on the stored bytes (NaN / most negative / zero, both complex components), raw rf_data has full "
    "window length and exactly one index row at the window start, a file exists iff a slot was written; with "
    "filters the channel equals the gapped model. Non-trivial: >= 1 unwritten slot inside an existing file."
)
ASSUMPTIONS = c01.ASSUMPTIONS[:1]
FLOORS = {"nontrivial": 0.6}

CELLS = []
for _k in ("i", "u", "f"):
    for _s in ((1, 2, 4, 8) if _k != "f" else (4, 8)):
        for _o in (("<",) if _s == 1 else ("<", ">")):
            CELLS.append((_k, _s, _o))


def budget(tier):
    return {"examples": 120 if tier == "quick" else 300, "shards": 1 if tier == "quick" else 16}


def _base_cfg(kind, size, order, cplx, nsub, comp=0, checksum=0):
    cfg = {"kind": kind, "size": size, "order": order, "cplx": cplx, "form": "struct", "nsub": nsub, "n": 200, "d": 3,
           "F": 400, "S": 2, "cont": 1, "comp": comp, "checksum": checksum, "salt": 77, "uuid": "verif"}
    cfg["start"] = rfmodel.first_sample(cfg, 1700000001600) + 5  # head gap of 5; 3 files before a subdir boundary
    return cfg


def directed_cases(tier):
    out = []
    for kind, size, order in CELLS:
        for cplx in (0, 1):
            for nsub in (1, 3):
                cfg = _base_cfg(kind, size, order, cplx, nsub)
                spf = rfmodel.samples_per_file_max(cfg)
                layouts = [
                    [{"op": "w", "idx": 0, "len": 4}, {"op": "w", "idx": 9, "len": 6}],  # gap inside file, head+tail
                    [{"op": "w", "idx": 0, "len": 3}, {"op": "w", "idx": 3 * spf, "len": 5}],  # whole files skipped
                    [{"op": "w", "idx": 2, "len": spf}, {"op": "w", "idx": 6 * spf + 3, "len": 2}],  # across a subdirectory
                ]
                for i, ops in enumerate(layouts):
                    out.append({"cfg": cfg, "ops": ops, "path": "py" if (i + nsub) % 2 else "c", "reads": []})
    # large files (10^5 slots): the recording starts in the middle of a file and runs to its end and beyond; a later
    # file is written from its first slot to somewhere inside; a third only in the middle
    for kind, size, order, cplx in (("i", 2, "<", 0), ("f", 4, ">", 1), ("i", 4, ">", 0), ("f", 8, "<", 0)):
        cfg = {"kind": kind, "size": size, "order": order, "cplx": cplx, "form": "struct", "nsub": 1, "n": 100000, "d": 1,
               "F": 1000, "S": 10, "cont": 1, "comp": 0, "checksum": 0, "salt": 78, "uuid": "verif", "start": 170000000000000 + 30000}
        ops = [{"op": "w", "idx": 0, "len": 70000}, {"op": "w", "idx": 70000, "len": 5000},
               {"op": "w", "idx": 270000, "len": 40000}, {"op": "w", "idx": 420000, "len": 100}]
        for path in ("py", "c"):
            out.append({"cfg": cfg, "ops": ops, "path": path, "reads": []})
    return out


@st.composite
def _cases(draw, tier):
    kind, size, order = draw(st.sampled_from(CELLS))
    cfg = draw(S.rf_configs(spf_cap=512, boundary_p=0.5, force={"cont": 1}))
    cfg.update({"kind": kind, "size": size, "order": order, "cplx": draw(st.integers(0, 1)),
                "nsub": draw(st.sampled_from([1, 3]))})
    filt = draw(st.integers(0, 5))
    cfg["comp"] = {4: 1}.get(filt, 0)
    cfg["checksum"] = 1 if filt == 5 else 0
    if cfg["F"] * cfg["n"] < 1000 * cfg["d"]:
        cfg["comp"] = cfg["checksum"] = 0  # (no chunked layout below one sample per file period: see strategies.rf_configs)
    ops = draw(S.write_ops(cfg, max_calls=6, max_files=3))
    m = rfmodel.Model(cfg)
    for op in ops:
        m.apply(op)
    reads = draw(S.read_ranges(m, 4))
    return S.draw_call_forms(draw, {"cfg": cfg, "ops": ops, "path": draw(st.sampled_from(["py", "c"])), "reads": reads})


def strategy(tier):
    return _cases(tier)


def run_case(case):
    res = Result()
    cfg = case["cfg"]
    tag = ":" + case["path"]
    m = c01.build_model(case)
    b = m.bounds()
    res.cls("cell:%s%d%s%s" % (cfg["kind"], cfg["size"], cfg["order"], "c" if cfg["cplx"] else "r"))
    if cfg["comp"] or cfg["checksum"]:
        res.cls("filter")
    with rfharness.scratch("c07") as top:
        for f in c01.execute(case, top):
            res.fail(*f)
        if res.failures:
            return res
        ch = os.path.join(top, "ch0")
        files = c04.check_layout(cfg, m, ch, res, tag)
        unfiltered = not rfmodel.chunked(cfg)
        nfill = 0
        for e in m.expected_blocks(b[0], b[1]):
            if e[2]:
                nfill += sum(hi - lo + 1 for lo, hi in e[2])
        res.nontrivial = nfill > 0
        if unfiltered:
            for rel, info in files.items():
                if "error" in info:
                    continue
                ms = int(rel.split("@")[1].split(".")[0]) * 1000 + int(rel.split("@")[1].split(".")[1])
                lo, hi = rfmodel.window(cfg, ms)
                if info["index"] != [[lo, 0]]:
                    res.fail("continuous-index" + tag, "%s index %r expected [[%d,0]]" % (rel, info["index"][:3], lo))
                if info["data_len"] != hi - lo:
                    res.fail("continuous-length" + tag, "%s rf_data %d window %d" % (rel, info["data_len"], hi - lo))
        try:
            with rfharness.quiet_fds():
                rd = rfharness.drf().DigitalRFReader(top)
        except Exception as e:
            res.fail("reader-open", "%s: %s" % (type(e).__name__, e))
            return res
        reads = [[max(0, b[0] - 3), b[1] + 3]] + list(case.get("reads", []))
        seen = set()
        for a, e in reads:
            res.evaluations += 1
            f = rfharness.check_read(cfg, m, rd, "ch0", a, e)
            if f and f[0] not in seen:
                seen.add(f[0])
                res.fail(f[0] + tag, f[1])
        rd.close()
    return res


def shrink_candidates(case):
    if not case.get("reads"):
        case = dict(case, reads=[[0, 0]])
    return c01.shrink_candidates(case)
