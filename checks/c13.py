"""C13 - Digital Metadata file placement agrees between writer and reader (DESIGN.md section 4, C13)."""
from __future__ import annotations

import os

import h5py
from hypothesis import strategies as st

from vlib import mdharness as M, rfharness
from vlib.campaign import Result

PID = "C13"
LEVEL = "exploration"
TECHNIQUE = "property-based testing with boundary-directed (rate, cadence, index) triples written by the real writer; location compared with big-integer arithmetic and read back through the reader"
RULE = (
    "Hypothesis draws (n/d, file cadence C, subdirectory cadence, prefix) and 1-5 (1-8 for batch writes) ascending sample indices of the "
    "form ceil(j*C*n/d) + delta (delta in -2..2, j over 1980-2100) or uniform; each is written (in a drawn order, "
    "numerators up to 10^12; one sample per call, or all samples in ONE write() call / two calls, sparse over files and subdirectories) with DigitalMetadataWriter. Oracle (big ints): the only files present are <subdir of T//S*S>/<prefix>@T.h5 with "
    "T = ((k*d)//n)//C*C and group str(k) is inside; read(k,k) returns exactly {k}; read_latest returns the "
    "greatest; the reader's candidate list for (k,k) is exactly that path. Non-trivial: some k is within one "
    "sample of a file's first sample ceil(j*C*n/d) (class boundary-noninteger-rate counts those with n % d != 0)."
)
RULE += ' Since rounds 7-8: prefixes with a blank at either end, subdirectories that can be searched but not listed, a second metadata writer alive in the process.'
ASSUMPTIONS = ["overlay build of /repo; h5py 3.16 from /venv"]
FLOORS = {"nontrivial": 0.4, "boundary-noninteger-rate": 0.2}


def budget(tier):
    return {"examples": 500 if tier == "quick" else 3000, "shards": 1 if tier == "quick" else 16}


@st.composite
def _cases(draw, tier):
    p = draw(M.md_params())
    n, d, C = p["n"], p["d"], p["C"]
    ks = []
    j = draw(st.integers(M.T1980 // C + 1, M.T2100 // C - 10))
    batch = draw(st.sampled_from([0, 0, 1, 1, 2, 3, 3]))
    for _ in range(draw(st.integers(1, 5 if batch == 0 else 8))):
        mode = draw(st.integers(0, 9))
        if mode < 8:
            k = M.boundary_index(j, n, d, C) + draw(st.sampled_from([-2, -1, 0, 0, 0, 1, 2]))
        else:
            k = (j * C * n) // d + draw(st.integers(0, max(1, C * n // d)))
        if ks and k <= ks[-1]:
            k = ks[-1] + 1
        ks.append(max(0, k))
        j += draw(st.sampled_from([0, 1, 1, 2, 7, 61]))
    # the writer does not require ascending order across calls: write in a drawn order
    order = draw(st.permutations(list(range(len(ks)))))
    # batch: 0 = one sample per write() call (drawn order), 1 = ONE write() call with all (ascending) samples,
    # 2 = two calls (first half, second half), 3 = ONE call with the samples in the drawn order
    return dict(p, ks=ks, order=list(order), batch=batch, dirmode=draw(st.sampled_from([None, None, None, 0o555, 0o311, 0o311])),
                twin=draw(st.integers(0, 2)) == 0)


def strategy(tier):
    return _cases(tier)


def directed_cases(tier):
    # design-phase probe (F5): 10^6/3 Hz, k = 693249492000000 belongs to second 2079748476
    out = [{"n": 1000000, "d": 3, "C": 1, "S": 3600, "prefix": "md", "ks": [693249492000000]}]
    # file-name prefixes with a blank at either end, subdirectories that can be searched but not listed
    for prefix in ("station 7 ", " lead"):
        for dirmode in (None, 0o311):
            out.append({"n": 10, "d": 3, "C": 2, "S": 6, "prefix": prefix, "ks": [5000000000, 5000000007, 5000000020, 5000000021, 5000000100],
                        "dirmode": dirmode})
    return out


def run_case(case):
    res = Result()
    n, d, C, S, prefix, ks = case["n"], case["d"], case["C"], case["S"], case["prefix"], case["ks"]
    drf = rfharness.drf()
    nt = False
    for k in ks:
        for j in (((k * d) // n) // C, ((k * d) // n) // C + 1):
            if abs(k - M.boundary_index(j, n, d, C)) <= 1:
                nt = True
                if n % d:
                    res.cls("boundary-noninteger-rate")
    res.nontrivial = nt
    if n % d:
        res.cls("noninteger-rate")
    with rfharness.scratch("c13") as top:
        md = os.path.join(top, "md")
        os.makedirs(md)
        w = M.open_writer(md, S, C, n, d, prefix, case.get("ptype", "int"))
        w2 = md2 = None
        if case.get("twin"):
            # a second metadata channel with the same parameters, alive in the same process and written alternately with
            # the first (chA/metadata + chB/metadata is the usual layout): writer objects share nothing
            res.cls("second-metadata-writer-in-process")
            md2 = os.path.join(top, "other", "metadata")
            os.makedirs(md2)
            w2 = M.open_writer(md2, S, C, n, d, prefix, case.get("ptype", "int"))
        expected = set()
        batch = case.get("batch", 0)
        if batch == 0 or len(ks) == 1:
            calls = [[i] for i in case.get("order", range(len(ks)))]
        elif batch == 1:
            calls = [list(range(len(ks)))]
        elif batch == 3:
            calls = [list(case.get("order", range(len(ks))))]  # ONE call with the samples in the drawn (unsorted) order
        else:
            h = len(ks) // 2
            calls = [list(range(h)), list(range(h, len(ks)))]
        if batch and len(ks) > 1:
            res.cls("batch-write")
            subs = {((ks[i] * d) // n) // S for i in range(len(ks))}
            if len(subs) > 1:
                res.cls("batch-write-spanning-subdirectories")
        for cn_, call in enumerate(calls):
            res.evaluations += len(call)
            try:
                for wr_ in ([w, w2] if cn_ % 2 else [w2, w]):
                    if wr_ is None:
                        continue
                    if len(call) == 1:
                        i = call[0]
                        wr_.write(ks[i], {"v": i, "name": "s%d" % i})
                    else:
                        import numpy as np

                        wr_.write([ks[i] for i in call], {"v": np.array(call), "name": ["s%d" % i for i in call]})
            except Exception as e:
                res.fail("write-exception", "k=%r %s: %s" % ([ks[i] for i in call], type(e).__name__, e))
                return res
            for i in call:
                expected.add(M.exact_path(ks[i], n, d, C, S, prefix))
            if md2 is not None:
                present2 = set(f for f in M.find_files(md2) if f != "dmd_properties.h5")
                exp2 = expected | {M.exact_path(ks[i], n, d, C, S, prefix) for i in call}
                if present2 != exp2:
                    res.fail("writer-placement:second-channel", "k=%r: the other channel holds %s, expected %s" % (
                        [ks[i] for i in call], sorted(present2 ^ exp2)[:3], sorted(exp2)[:3]))
                    return res
            present = set(f for f in M.find_files(md) if f != "dmd_properties.h5")
            if present != expected:
                k = ks[call[-1]]
                res.fail("writer-placement", "k=%r n/d=%d/%d C=%d S=%d: unexpected files %s, missing %s (float formula gives %d for the last)" % (
                    [ks[i] for i in call], n, d, C, S, sorted(present - expected)[:2], sorted(expected - present)[:2], M.float_file_ts(k, n, d, C)))
                return res
            for i in call:
                rel = M.exact_path(ks[i], n, d, C, S, prefix)
                with h5py.File(os.path.join(md, rel), "r") as f:
                    if str(ks[i]) not in f:
                        res.fail("writer-group-missing", "k=%d not in %s" % (ks[i], rel))
                        return res
        # permission bits of the time-stamped subdirectories while the archive is read: as created / read-only / search-only
        # (--x: entries can be opened by name but the directory cannot be listed; the check runs without root's override)
        dirmode = case.get("dirmode")
        from vlib import unpriv
        if dirmode is not None and not unpriv.ENFORCED:
            res.cls("permissions-not-enforced")
            dirmode = None
        subdirs = [os.path.join(md, x) for x in os.listdir(md) if os.path.isdir(os.path.join(md, x))]
        if dirmode is not None:
            res.cls("subdirectories-mode-%03o" % dirmode)
            for sd_ in subdirs:
                os.chmod(sd_, dirmode)
        try:
            _read_phase(res, drf, md, case, listing_ok=dirmode in (None, 0o555))
        finally:
            for sd_ in subdirs:
                os.chmod(sd_, 0o755)
    return res


def _read_phase(res, drf, md, case, listing_ok=True):
    n, d, C, S, prefix, ks = case["n"], case["d"], case["C"], case["S"], case["prefix"], case["ks"]
    if True:
        r = drf.DigitalMetadataReader(md)
        for i, k in enumerate(ks):
            try:
                got = r.read(k, k)
            except Exception as e:
                res.fail("read-exception", "k=%d %s: %s" % (k, type(e).__name__, e))
                continue
            if [int(x) for x in got.keys()] != [k]:
                res.fail("reader-misses-sample", "read(%d,%d) -> %r ; stored in %s" % (k, k, list(got.keys()), M.exact_path(k, n, d, C, S, prefix)))
            elif got[k].get("v") != i:
                res.fail("reader-wrong-value", "read(%d) -> %r" % (k, got[k]))
            try:
                fl = [os.path.relpath(p, md) for p in r._get_file_list(k, k)]
                if fl != [M.exact_path(k, n, d, C, S, prefix)]:
                    res.fail("reader-candidates", "k=%d candidates %r exact %s" % (k, fl, M.exact_path(k, n, d, C, S, prefix)))
            except Exception as e:
                res.fail("reader-candidates-exception", "%s: %s" % (type(e).__name__, e))
        if not listing_ok:
            return  # (the latest sample and the bounds are found by listing the directories)
        try:
            latest = r.read_latest()
            if [int(x) for x in latest.keys()] != [ks[-1]]:
                res.fail("read-latest", "read_latest keys %r expected [%d]" % (list(latest.keys()), ks[-1]))
        except Exception as e:
            res.fail("read-latest-exception", "%s: %s" % (type(e).__name__, e))
        try:
            allr = r.read(ks[0], ks[-1])
            if [int(x) for x in allr.keys()] != ks:
                res.fail("range-read", "read(%d,%d) keys %r expected %r" % (ks[0], ks[-1], list(allr.keys()), ks))
        except Exception as e:
            res.fail("range-read-exception", "%s: %s" % (type(e).__name__, e))


def shrink_candidates(case):
    ks = case["ks"]
    for i in range(len(ks)):
        if len(ks) > 1:
            yield dict(case, ks=ks[:i] + ks[i + 1:], order=list(range(len(ks) - 1)))
    if case.get("order") and case["order"] != sorted(case["order"]):
        yield dict(case, order=sorted(case["order"]))
    if case.get("batch") == 2:
        yield dict(case, batch=1)
    if case["S"] != case["C"]:
        yield dict(case, S=case["C"])
    if case["prefix"] != "md":
        yield dict(case, prefix="md")


def float_placement_differs(case, sig=None, detail=None):
    return any(M.float_file_ts(k, case["n"], case["d"], case["C"]) != M.exact_file_ts(k, case["n"], case["d"], case["C"])
               for k in case["ks"])


PREDICATES = {"float_placement_differs": float_placement_differs}
