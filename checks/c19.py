"""C19 - writer bookkeeping matches the recording (DESIGN.md section 4, C19).  Shares histories with C05."""
from __future__ import annotations

from checks import c05
from vlib.campaign import Result

PID = "C19"
LEVEL = "exploration"
TECHNIQUE = "stateful property-based testing: generated call histories (valid + rejected) with every getter compared with model counters after every step and after close"
RULE = (
    "The C05 history generator (valid rf_write / rf_write_blocks, empty writes, invalid calls rejected for the C05 "
    "reasons, all writer modes, Python writer and C API). After EVERY accepted call: return value == next available "
    "== 1 + highest relative index written, total written == accepted samples, total gap == skipped indices, their "
    "sum == next available, last file / directory == the model's path of the most recently written sample; "
    "unchanged by rejected calls; retained after close; channel paths of about 20, 300 and 600 characters. Non-trivial: a history with a block write in continuous "
    "mode or a rejected call between two valid ones."
)
ASSUMPTIONS = c05.ASSUMPTIONS[:1] + ["the C API exposes only the next index and last file/dir; written/gap totals are judged through the Python writer"]
FLOORS = {"nontrivial": 0.5}
budget = c05.budget
strategy = c05.strategy
shrink_candidates = c05.shrink_candidates


def directed_cases(tier):
    # C05's directed histories without the multi-session ones (those are judged by C05's own second stage)
    return [c for c in c05.directed_cases(tier) if c.get("kind") != "sessions"]


def run_case(case):
    res = Result()
    sandwiched = c05.classify(case, res)
    cont_blocks = bool(case["cfg"]["cont"]) and any(op["op"] == "b" and not op.get("expect") for op in case["ops"])
    if cont_blocks:
        res.cls("continuous-block-write")
    if any(op["len"] == 0 and not op.get("expect") for op in case["ops"]):
        res.cls("empty-write")
    res.nontrivial = sandwiched or cont_blocks
    f05, f19, info = c05.run_history(case)
    res.evaluations = max(1, len(case["ops"]))
    if f05 and not f19:
        # the history could not be judged for bookkeeping (C05's business); not a C19 verdict
        res.cls("unjudged-c05-failure")
    seen = set()
    for sig, d in f19:
        if sig not in seen:
            seen.add(sig)
            res.fail(sig, d)
    return res


def empty_write_with_gap(case, sig=None, detail=None):
    """F8: an accepted zero-length rf_write whose index lies beyond the next available sample."""
    import re

    m = re.search(r"op (\d+) ", detail or "")
    if not m:
        return False
    i = int(m.group(1))
    # the first op flagged must come at or after such an empty write
    for op in case["ops"][: i + 1]:
        if op["op"] == "w" and op["len"] == 0 and not op.get("expect"):
            return True
    return False


PREDICATES = {"empty_write_with_gap": empty_write_with_gap}
