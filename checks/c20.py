"""C20 - live metadata visibility and non-destructive reading (DESIGN.md section 4, C20)."""
from __future__ import annotations

import os
import time

from hypothesis import strategies as st

from vlib import mdharness as M, rfharness, rfmodel, treeutil
from vlib.campaign import Result

PID = "C20"
LEVEL = "exploration"
TECHNIQUE = "stateful property-based testing: generated interleavings of metadata / RF writes with reader construction and queries on one tree; visibility checked through the oldest and newest live reader, recursive tree snapshots (names, sizes, mtime_ns, SHA-256) around every read-only call"
RULE = (
    "Histories of 10-25 (thorough: up to 60) steps on one tree holding an RF channel and its 'metadata' channel: "
    "metadata writes (single and batched, ascending indices plus occasional late writes below all earlier ones, around file and subdirectory boundaries, several per "
    "file), read-only queries before the first write, RF writes (open tmp. file present), "
    "new metadata / RF readers, and read-only calls on any live reader (get_bounds, read ranges, read_latest, "
    "read_flatdict, lsdrf variants, DigitalRFReader.read / get_bounds / read_metadata / get_digital_metadata / "
    "get_properties). After each metadata write returns: for the oldest AND a brand-new reader the bounds include it, a "
    "range read around it returns it, read_latest is the highest index. Around EVERY read-only call the recursive "
    "snapshot of the tree must be identical (all files are given an old mtime first, and queries include a column "
    "that does not exist). Non-trivial: a metadata file is read, appended to afterwards, and read "
    "again."
)
RULE += ' Since rounds 7-8: in-progress files of a host whose clock is ahead, forward-fill visibility after back-dated writes, read_metadata through old and new RF readers, callers that modify results.'
ASSUMPTIONS = ["atime is not part of the snapshot; mtime_ns, size, names and SHA-256 are", "overlay build of /repo"]
FLOORS = {"nontrivial": 0.5}
T0 = 1700000000
N, D = 100, 1


def budget(tier):
    return {"examples": 150 if tier == "quick" else 400, "shards": 1 if tier == "quick" else 16}


@st.composite
def _cases(draw, tier):
    C = draw(st.sampled_from([1, 2, 5]))
    S = C * draw(st.sampled_from([1, 2, 10]))
    nsteps = draw(st.integers(10, 25 if tier == "quick" else 60))
    steps = []
    # read-only queries may come before the first metadata write (the channel exists but is empty)
    for _ in range(draw(st.sampled_from([0, 0, 1, 2]))):
        steps.append({"s": "read", "which": draw(st.sampled_from(["rf.get_dm", "rf.read_metadata", "md.bounds", "md.read", "ls", "md.fields"])),
                      "r": 0, "a": 0, "b": 10})
    steps.append({"s": "md", "k": T0 * N + draw(st.integers(0, 50))})
    last = steps[-1]["k"]
    rf_next = 0
    for _ in range(nsteps):
        k = draw(st.sampled_from(["md", "md", "md", "mdb", "mdlow", "rf", "newmd", "newrf", "read", "read", "read", "read"]))
        if k == "mdlow":
            # a late write BELOW everything written so far (the writer allows it): bounds of old readers must follow
            lowest = min(st_["k"] if "k" in st_ else min(st_.get("ks", [last])) for st_ in steps if st_["s"] in ("md", "mdb"))
            kk = lowest - draw(st.sampled_from([1, 7, C * N, S * N + 3]))
            if kk >= 0:
                steps.append({"s": "md", "k": kk})
            continue
        if k == "mdb":
            # one write() call with several samples; the later ones on the first sample of the next file / subdirectory
            ks = [last + draw(st.sampled_from([1, 5, 50]))]
            for _i in range(draw(st.integers(1, 2))):
                unit = draw(st.sampled_from([C, S, S]))
                j = (ks[-1] * D // N) // unit + 1
                kk = M.boundary_index(j, N, D, unit) + draw(st.sampled_from([0, 0, 0, 1, -1]))
                ks.append(kk if kk > ks[-1] else ks[-1] + 1)
            last = ks[-1]
            if draw(st.booleans()):
                ks = list(draw(st.permutations(ks)))  # one call, samples not in ascending order
            steps.append({"s": "mdb", "ks": ks})
        elif k == "md":
            mode = draw(st.integers(0, 3))
            if mode == 0:
                last += draw(st.sampled_from([1, 9, 10, 90, 91]))
            elif mode == 1:
                j = (last * D // N) // C + draw(st.sampled_from([1, 1, 2]))
                kk = M.boundary_index(j, N, D, C) + draw(st.sampled_from([-1, 0, 0, 1]))
                last = kk if kk > last else last + 1
            else:
                last += draw(st.integers(1, max(2, C * N // 2)))
            steps.append({"s": "md", "k": last})
        elif k == "rf":
            gap = draw(st.sampled_from([0, 0, 0, 7, 130]))
            ln = draw(st.sampled_from([10, 60, 100, 150]))
            steps.append({"s": "rf", "idx": rf_next + gap, "len": ln})
            rf_next += gap + ln
        elif k in ("newmd", "newrf"):
            steps.append({"s": k})
        else:
            steps.append({"s": "read", "which": draw(st.sampled_from(
                ["md.bounds", "md.read", "md.read", "md.ffill", "md.latest", "md.flat", "md.fields", "md.nocolumn", "ls", "ls.window", "ls.reverse",
                 "rf.read", "rf.bounds", "rf.read_metadata", "rf.get_dm", "rf.props", "rf.blocks"])),
                "r": draw(st.integers(0, 5)), "a": draw(st.integers(-300, 300)), "b": draw(st.integers(0, 600))})
    return {"C": C, "S": S, "steps": steps, "inprogress": draw(st.sampled_from([None, None, 300, 10800]))}


def strategy(tier):
    return _cases(tier)


RF_CFG = {"kind": "i", "size": 2, "order": "<", "cplx": 1, "form": "struct", "nsub": 1, "n": N, "d": D, "F": 1000, "S": 10,
          "cont": 0, "comp": 0, "checksum": 0, "salt": 3, "uuid": "verif", "start": T0 * N + 20}


def run_case(case):
    res = Result()
    drf = rfharness.drf()
    C, S = case["C"], case["S"]
    seen = set()

    def fail(sig, detail):
        if sig not in seen:
            seen.add(sig)
            res.fail(sig, detail)

    read_files = {}  # md file relpath -> number of samples when last read
    nontrivial = False
    with rfharness.scratch("c20") as top:
        ch = os.path.join(top, "ch0")
        md = os.path.join(ch, "metadata")
        os.makedirs(md)
        with rfharness.quiet_fds():
            rfw = rfharness.open_py_writer(RF_CFG, ch)
        mdw = drf.DigitalMetadataWriter(md, S, C, N, D, "metadata")
        md_readers, rf_readers = [], []
        model = {}
        rf_call = 0
        file_count = {}
        try:
            for si, st_ in enumerate(case["steps"]):
                res.evaluations += 1
                kind = st_["s"]
                if kind in ("md", "mdb"):
                    ks_w = [st_["k"]] if kind == "md" else list(st_["ks"])
                    try:
                        if kind == "md":
                            mdw.write(ks_w[0], {"v": si, "tag": "s%d" % si})
                        else:
                            mdw.write(ks_w, {"v": si, "tag": "s%d" % si})
                    except Exception as e:
                        fail("md-write-exception:%s" % type(e).__name__, "step %d k=%r: %s" % (si, ks_w, e))
                        return res
                    for k in ks_w:
                        model[k] = si
                        frel = M.exact_path(k, N, D, C, S, "metadata")
                        file_count[frel] = file_count.get(frel, 0) + 1
                        if frel in read_files and read_files[frel] < file_count[frel]:
                            nontrivial = True
                    hi = max(model)
                    lo = min(model)
                    try:
                        readers = [("new", drf.DigitalMetadataReader(md))]
                    except Exception as e:
                        fail("visibility-exception:new-reader:%s" % type(e).__name__, "step %d after write of %r: a new reader cannot be created: %s" % (si, ks_w, e))
                        return res
                    if md_readers:
                        readers.append(("old", md_readers[0]))
                    for name, r, k in [(n_, r_, k_) for (n_, r_) in readers for k_ in ks_w]:
                        try:
                            b = tuple(int(x) for x in r.get_bounds())
                            if b != (lo, hi):
                                fail("visibility-bounds:" + name, "step %d after write of %d: bounds %r expected %r" % (si, k, b, (lo, hi)))
                            got = r.read(k - 3, k + 3)
                            exp = [x for x in sorted(model) if k - 3 <= x <= k + 3]
                            if [int(x) for x in got.keys()] != exp or got[k].get("v") != si:
                                fail("visibility-read:" + name, "step %d after write of %d: read(%d,%d) -> %r expected %r" % (si, k, k - 3, k + 3, list(got.keys()), exp))
                            lat = r.read_latest()
                            if [int(x) for x in lat.keys()] != [hi] or lat[hi].get("v") != model[hi]:
                                fail("visibility-latest:" + name, "step %d after write of %d: read_latest -> %r expected [%d]" % (si, k, list(lat.keys()), hi))
                            # a forward-filled read that starts just after the new sample finds it
                            gf = r.read(k + 1, k + 2, method="ffill")
                            expf = [max(x for x in model if x <= k + 1)] + [x for x in sorted(model) if k + 1 < x <= k + 2]
                            if [int(x) for x in gf.keys()] != expf:
                                fail("visibility-ffill:" + name, "step %d after write of %d: read(%d,%d,'ffill') -> %r expected %r" % (si, k, k + 1, k + 2, list(gf.keys()), expf))
                            for res_ in (got, lat, gf):  # the caller does what it likes with results
                                for d_ in res_.values():
                                    d_.clear()
                        except Exception as e:
                            fail("visibility-exception:%s:%s" % (name, type(e).__name__), "step %d after write of %d: %s" % (si, k, e))
                    # the same through the RF reader of the channel (read_metadata: the metadata of ch0 plus the channel's own
                    # rate entries), oldest and newest reader object; a range before all metadata yields the rate entries alone
                    try:
                        with rfharness.quiet_fds():
                            if not rf_readers:
                                rf_readers.append(drf.DigitalRFReader(top))
                            rds = [("old-rf", rf_readers[0]), ("new-rf", drf.DigitalRFReader(top))]
                        for name, rr in rds:
                            for k in ks_w:
                                gm = rr.read_metadata(k, k + 2, "ch0")
                                expm = [x for x in sorted(model) if k <= x <= k + 2]
                                if [int(x) for x in gm.keys()] != expm or gm[k].get("v") != si or gm[k].get("sample_rate_numerator") != N \
                                        or gm[k].get("sample_rate_denominator") != D or "samples_per_second" not in gm[k]:
                                    fail("visibility-read_metadata:" + name, "step %d after write of %d: read_metadata(%d,%d) -> %r" % (
                                        si, k, k, k + 2, {int(a_): dict(b_) for a_, b_ in gm.items()}))
                                for d_ in gm.values():  # an application annotates / prunes what it was given
                                    d_.pop("samples_per_second", None)
                                    d_["v"] = -7
                                    d_["operator_note"] = "seen"
                            if lo >= 10:
                                ge = rr.read_metadata(lo - 9, lo - 5, "ch0")
                                if [int(x) for x in ge.keys()] != [lo - 9] or sorted(ge[lo - 9]) != ["sample_rate_denominator", "sample_rate_numerator", "samples_per_second"]:
                                    fail("visibility-read_metadata-empty:" + name, "step %d: read_metadata(%d,%d) before all metadata -> %r" % (
                                        si, lo - 9, lo - 5, {int(a_): sorted(b_) for a_, b_ in ge.items()}))
                                for d_ in ge.values():
                                    d_.pop("samples_per_second", None)
                                    d_["v"] = -7
                                    d_["operator_note"] = "seen"
                        rds[1][1].close()
                    except Exception as e:
                        fail("visibility-exception:read_metadata:%s" % type(e).__name__, "step %d after write of %r: %s" % (si, ks_w, e))
                    read_files[frel] = file_count[frel]  # the visibility reads above opened this file
                elif kind == "rf":
                    r = rfharness.py_issue(rfw, RF_CFG, {"op": "w", "idx": st_["idx"], "len": st_["len"]}, rf_call)
                    rf_call += 1
                    if r[0] != "ok":
                        fail("rf-write-rejected", "step %d: %s" % (si, r[1]))
                        return res
                elif kind == "newmd":
                    try:
                        md_readers.append(drf.DigitalMetadataReader(md))
                        try:
                            md_readers[-1].get_bounds()  # an earlier reader that has been used
                        except IOError:
                            pass
                    except Exception as e:
                        fail("reader-construction:%s" % type(e).__name__, "step %d: DigitalMetadataReader: %s" % (si, e))
                        return res
                elif kind == "newrf":
                    try:
                        with rfharness.quiet_fds():
                            rf_readers.append(drf.DigitalRFReader(top))
                    except Exception as e:
                        fail("reader-construction:%s" % type(e).__name__, "step %d: DigitalRFReader: %s" % (si, e))
                        return res
                elif kind == "read":
                    which = st_["which"]
                    # make every file look old: code paths that delete "old unreadable" files must not be reachable
                    # on a valid tree, whatever the query
                    for dp, dn, fn in os.walk(top):
                        for f_ in fn:
                            os.utime(os.path.join(dp, f_), (946684800, 946684800))
                    # ... while another process (on a host whose clock is ahead) has just begun the metadata file of the
                    # period after the newest sample: created, not yet a valid HDF5 file.  Readers skip it; no query may
                    # remove or touch it
                    junk = None
                    if case.get("inprogress") and model:
                        jt = (M.exact_file_ts(max(model), N, D, C) // C + 1) * C
                        junk = os.path.join(md, os.path.dirname(M.exact_path(M.boundary_index(jt // C, N, D, C), N, D, C, S, "metadata")),
                                            "metadata@%d.h5" % jt)
                        if os.path.exists(junk):
                            junk = None
                        else:
                            made_dir = None if os.path.isdir(os.path.dirname(junk)) else os.path.dirname(junk)
                            os.makedirs(os.path.dirname(junk), exist_ok=True)
                            with open(junk, "wb") as f_:
                                f_.write(b"\x89HDF\r\n\x1a\n" + b"\0" * 40)
                            t_ = time.time() + case["inprogress"]
                            os.utime(junk, (t_, t_))
                            res.cls("unfinished-file-of-another-process:clock-ahead")
                    before = treeutil.snapshot(top, mtime=True)
                    base_k = max(model) if model else T0 * N
                    a = base_k + st_["a"]
                    b = a + st_["b"]
                    try:
                        with rfharness.quiet_fds():
                            if which.startswith("md."):
                                r = md_readers[st_["r"] % len(md_readers)] if md_readers else drf.DigitalMetadataReader(md)
                                if which == "md.bounds":
                                    r.get_bounds()
                                elif which == "md.read":
                                    got = r.read(a, b)
                                    for kk in got:
                                        read_files[M.exact_path(int(kk), N, D, C, S, "metadata")] = file_count.get(M.exact_path(int(kk), N, D, C, S, "metadata"), 0)
                                elif which == "md.ffill":
                                    r.read(a, b, method="ffill")
                                elif which == "md.latest":
                                    got = r.read_latest()
                                    for kk in got:
                                        read_files[M.exact_path(int(kk), N, D, C, S, "metadata")] = file_count.get(M.exact_path(int(kk), N, D, C, S, "metadata"), 0)
                                elif which == "md.flat":
                                    r.read_flatdict(a, b)
                                elif which == "md.nocolumn":
                                    lo_, hi_ = (min(model), max(model)) if model else (a, b)
                                    r.read(lo_, hi_, columns="no_such_column")
                                else:
                                    r.get_fields()
                            elif which.startswith("ls"):
                                kw = {}
                                if which == "ls.window":
                                    kw = {"starttime": M.datetime.datetime.fromtimestamp(a / N, tz=M.datetime.timezone.utc),
                                          "endtime": M.datetime.datetime.fromtimestamp(b / N, tz=M.datetime.timezone.utc)}
                                if which == "ls.reverse":
                                    kw = {"reverse": True}
                                drf.lsdrf(top, **kw)
                            else:
                                if not rf_readers:
                                    rf_readers.append(drf.DigitalRFReader(top))
                                r = rf_readers[st_["r"] % len(rf_readers)]
                                if which == "rf.read":
                                    r.read(max(0, a), max(0, b), "ch0")
                                elif which == "rf.blocks":
                                    r.get_continuous_blocks(max(0, a), max(0, b), "ch0")
                                elif which == "rf.bounds":
                                    r.get_bounds("ch0")
                                elif which == "rf.read_metadata":
                                    r.read_metadata(max(0, a), max(0, b), "ch0")
                                elif which == "rf.get_dm":
                                    r.get_digital_metadata("ch0").read_latest()
                                else:
                                    r.get_properties("ch0")
                    except Exception as e:
                        # the non-destructive half only cares about the tree; exceptions of queries on
                        # ranges without data are other properties' business
                        res.cls("query-exception")
                    after = treeutil.snapshot(top, mtime=True)
                    if after != before:
                        fail("read-modified-tree:" + which, "step %d %s: %s" % (si, which, treeutil.diff(before, after)))
                    if junk is not None:
                        # (the other process gives up: its file and the directory it made disappear again)
                        if os.path.exists(junk):
                            os.remove(junk)
                        if made_dir and os.path.isdir(made_dir) and not os.listdir(made_dir):
                            os.rmdir(made_dir)
        finally:
            with rfharness.quiet_fds():
                rfw.close()
            for r in rf_readers:
                r.close()
    res.nontrivial = nontrivial
    return res


def shrink_candidates(case):
    steps = case["steps"]
    for i in range(len(steps) - 1, 0, -1):
        yield dict(case, steps=steps[:i] + steps[i + 1:])
