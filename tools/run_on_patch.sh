#!/bin/sh
# usage: run_on_patch.sh <patch.diff> <ID> [quick|thorough]   (extra env is passed through)
# Applies the patch to a scratch copy of /repo's working tree (never to /repo) and runs the check against it.
set -e
PATCH=$(readlink -f "$1"); ID=$2; TIER=${3:-quick}
D=$(mktemp -d /dev/shm/mut-XXXXXX)
trap 'rm -rf "$D"' EXIT
mkdir -p "$D/c" "$D/python"
cp -r /repo/c/lib /repo/c/include "$D/c/"
cp -r /repo/python/lib /repo/python/digital_rf "$D/python/"
(cd "$D" && patch -s -p1 < "$PATCH")
cd /verif
VERIF_OUT_DIR="${VERIF_OUT_DIR:-$D/out}" VERIF_REPO="$D" ./check "$ID" "$TIER"
