#!/bin/sh
# Run the repository's own pytest suite against the overlay build of /repo's working tree
# (the baseline command exercises the copy installed in /venv, not /repo: DESIGN.md 2.1).
set -e
OVL=$(/venv/bin/python /verif/vlib/build.py py)
cd /repo/python/tests
PYTHONPATH=$OVL exec /venv/bin/python -m pytest -q -p no:cacheprovider -x --timeout=900 "$@" .
