#!/bin/sh
# usage: build_overlay.sh <worktree>    -> builds <worktree>/.ovl and prints its path
# Builds the digital_rf Python package (C extension + python sources) from the given source tree so that
# `PYTHONPATH=<worktree>/.ovl /venv/bin/python` imports THAT tree (the copy installed in /venv is NOT your tree).
set -e
WT=$(readlink -f "$1")
OVL="$WT/.ovl"
rm -rf "$OVL"; mkdir -p "$OVL/digital_rf"
PYINC=$(/venv/bin/python -c "import sysconfig;print(sysconfig.get_paths()['include'])")
NPINC=$(/venv/bin/python -c "import numpy;print(numpy.get_include())")
EXT=$(/venv/bin/python -c "import sysconfig;print(sysconfig.get_config_var('EXT_SUFFIX'))")
gcc -O1 -g -shared -fPIC -w -I"$WT/c/include" -I/usr/include/hdf5/serial -I"$PYINC" -I"$NPINC" \
  "$WT/c/lib/rf_write_hdf5.c" "$WT/python/lib/py_rf_write_hdf5.c" \
  -L/usr/lib/x86_64-linux-gnu/hdf5/serial -lhdf5 -lm -o "$OVL/digital_rf/_py_rf_write_hdf5$EXT"
for f in "$WT"/python/digital_rf/*.py; do
  b=$(basename "$f"); [ "$b" = "_version.py" ] && continue
  ln -s "$f" "$OVL/digital_rf/$b"
done
printf '__version__ = version = "2.6.14"\n__version_tuple__ = version_tuple = (2, 6, 14)\n' > "$OVL/digital_rf/_version.py"
echo "$OVL"
