#!/venv/bin/python
"""Sensitivity self-test of the machinery: apply every stored seeded change to a scratch copy of /repo's working tree and
run the check(s) recorded as catching it (quick tier, VERIF_SEED as given).  /repo itself is never touched.

usage: selftest_seeded.py [-j N] [--seed S] [--own] [--update] [pattern]
       pattern: substring of the seeded directory name, e.g. C05 or r2
       --own: run the property's OWN check first (then the recorded cross-checks); --update: record the outcome in meta.json

Prints one line per change and a summary; exit 0 iff every change is reported (exit 1 + VIOLATION) by at least one of its
recorded checks.  This is a development tool, not a registered check."""
import concurrent.futures
import json
import os
import shutil
import subprocess
import sys
import tempfile

VERIF = os.path.dirname(os.path.dirname(os.path.abspath(__file__)))
REPO = os.environ.get("VERIF_REPO", "/repo")


OWN = UPDATE = False


def run_one(name, seed):
    d = os.path.join(VERIF, "seeded", name)
    meta = json.load(open(os.path.join(d, "meta.json")))
    checks = [k.split(":")[0] for k, v in meta.get("checks", {}).items() if v.get("rc") == 1] or [meta["property"]]
    if OWN:
        checks = [meta["property"]] + [c for c in checks if c != meta["property"]]
    scratch = tempfile.mkdtemp(prefix="st-%s-" % name, dir="/dev/shm")
    try:
        for sub in ("c/lib", "c/include", "python/lib", "python/digital_rf"):
            shutil.copytree(os.path.join(REPO, sub), os.path.join(scratch, sub))
        r = subprocess.run(["patch", "-s", "-p1", "-i", os.path.join(d, "patch.diff")], cwd=scratch, stdout=subprocess.PIPE,
                           stderr=subprocess.STDOUT, text=True)
        if r.returncode != 0:
            return name, "PATCH-FAILED", r.stdout[-200:]
        out = []
        for c in checks:
            env = dict(os.environ, VERIF_REPO=scratch, VERIF_OUT_DIR=os.path.join(scratch, "out"), VERIF_SEED=str(seed))
            p = subprocess.run([os.path.join(VERIF, "check"), c, "quick"], env=env, cwd=VERIF, stdout=subprocess.PIPE,
                               stderr=subprocess.STDOUT, text=True)
            sig = [ln.strip()[10:90] for ln in p.stdout.splitlines() if ln.strip().startswith("signature=")]
            out.append((c, p.returncode, sig[0] if sig else ""))
            if p.returncode == 1:
                if UPDATE:
                    meta.setdefault("checks", {})["%s:quick" % c] = {"rc": 1, "signatures": sig[:4], "seed": seed}
                    meta["caught"] = True
                    with open(os.path.join(d, "meta.json"), "w") as f:
                        json.dump(meta, f, indent=1)
                return name, "CAUGHT", "%s: %s" % (c, sig[0] if sig else "")
        return name, "MISSED", "; ".join("%s rc=%d" % (c, rc) for c, rc, _ in out)
    finally:
        shutil.rmtree(scratch, ignore_errors=True)


def main():
    args = sys.argv[1:]
    global OWN, UPDATE
    jobs, seed, pat = 4, 1, ""
    while args:
        a = args.pop(0)
        if a == "-j":
            jobs = int(args.pop(0))
        elif a == "--seed":
            seed = int(args.pop(0))
        elif a == "--own":
            OWN = True
        elif a == "--update":
            UPDATE = True
        else:
            pat = a
    names = sorted(n for n in os.listdir(os.path.join(VERIF, "seeded")) if pat in n)
    missed = 0
    with concurrent.futures.ThreadPoolExecutor(max_workers=jobs) as ex:
        for name, verdict, info in ex.map(lambda n: run_one(n, seed), names):
            print("%-10s %-12s %s" % (name, verdict, info), flush=True)
            if verdict != "CAUGHT":
                missed += 1
    print("%d seeded changes, %d not reported" % (len(names), missed))
    return 1 if missed else 0


if __name__ == "__main__":
    sys.exit(main())
