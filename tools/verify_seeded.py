#!/venv/bin/python
"""Confirm a seeded change delivered by a sub-agent and run the checks against it.

usage: verify_seeded.py <seed-dir> <k> [--checks C01,C08] [--thorough] [--tag r2]

<seed-dir> holds patch_<k>.diff, demo_<k>.py, meta_<k>.json.  Steps (all in a scratch git worktree of /repo under
/tmp, removed afterwards; /repo itself is never touched):
  1. the patch applies to /repo's HEAD;
  2. the repository's own test-suite passes with the patch (overlay build of the worktree);
  3. the demonstration FAILS with the patch and PASSES without it;
  4. the property's check (quick, then thorough if quick stays green and --thorough) is run with VERIF_REPO pointing at
     the patched worktree.
On success the change is stored as /verif/seeded/<ID>-<k>/{patch.diff, demo.py, meta.json}.
"""
import json
import os
import shutil
import subprocess
import sys
import tempfile
import time

VERIF = os.path.dirname(os.path.dirname(os.path.abspath(__file__)))


def sh(cmd, **kw):
    return subprocess.run(cmd, shell=isinstance(cmd, str), stdout=subprocess.PIPE, stderr=subprocess.STDOUT, text=True, **kw)


def overlay(wt):
    r = sh([os.path.join(VERIF, "tools", "build_overlay.sh"), wt])
    if r.returncode != 0:
        return None, r.stdout
    return r.stdout.strip().splitlines()[-1], r.stdout


def run_demo(demo, ovl, cwd):
    env = dict(os.environ, PYTHONPATH=ovl)
    try:
        r = sh(["/venv/bin/python", demo], env=env, cwd=cwd, timeout=900)
        return r.returncode, r.stdout[-1500:]
    except subprocess.TimeoutExpired:
        return -999, "timeout"


def main():
    seed, k = sys.argv[1], sys.argv[2]
    args = sys.argv[3:]
    checks = None
    thorough = "--thorough" in args
    tag = args[args.index("--tag") + 1] + "-" if "--tag" in args else ""
    if "--checks" in args:
        checks = args[args.index("--checks") + 1].split(",")
    meta = json.load(open(os.path.join(seed, "meta_%s.json" % k)))
    pid = meta.get("property") or os.path.basename(seed.rstrip("/"))[-3:]
    checks = checks or [pid]
    patch = os.path.join(seed, "patch_%s.diff" % k)
    demo = os.path.join(seed, "demo_%s.py" % k)
    wt = tempfile.mkdtemp(prefix="vs-%s-%s-" % (pid, k), dir="/tmp")
    os.rmdir(wt)
    out = {"property": pid, "k": k, "summary": meta.get("summary"), "needs": meta.get("needs"), "files": meta.get("files")}
    log = []
    try:
        r = sh(["git", "-C", "/repo", "worktree", "add", "-q", "--detach", wt, "HEAD"])
        if r.returncode != 0:
            print("worktree failed", r.stdout)
            return 2
        # unchanged tree: the demo must pass
        ovl, bo = overlay(wt)
        rc0, o0 = run_demo(demo, ovl, wt)
        log.append("demo on unchanged tree: rc=%s" % rc0)
        r = sh(["git", "-C", wt, "apply", patch])
        if r.returncode != 0:
            out["error"] = "patch does not apply: " + r.stdout[-500:]
            print(json.dumps(out, indent=1))
            return 1
        ovl, bo = overlay(wt)
        if ovl is None:
            out["error"] = "does not compile: " + bo[-800:]
            print(json.dumps(out, indent=1))
            return 1
        rc1, o1 = run_demo(demo, ovl, wt)
        log.append("demo with the change: rc=%s" % rc1)
        t = sh("cd %s/python/tests && PYTHONPATH=%s /venv/bin/python -m pytest -q -p no:cacheprovider -x --timeout=900 . 2>&1 | tail -3" % (wt, ovl))
        tests_ok = " passed" in t.stdout and "failed" not in t.stdout and "error" not in t.stdout.lower()
        log.append("repository tests with the change: %s" % t.stdout.strip().splitlines()[-1] if t.stdout.strip() else "no output")
        out["demo_unchanged_rc"] = rc0
        out["demo_changed_rc"] = rc1
        out["tests_pass_with_change"] = tests_ok
        out["confirmed"] = bool(rc0 == 0 and rc1 not in (0, -999) and tests_ok)
        if not out["confirmed"]:
            out["demo_unchanged_tail"] = o0[-600:]
            out["demo_changed_tail"] = o1[-600:]
        # run the checks against the patched tree
        results = {}
        outdir = tempfile.mkdtemp(prefix="vsout-", dir="/dev/shm")
        for c in checks:
            for tier in (["quick", "thorough"] if thorough else ["quick"]):
                t0 = time.time()
                env = dict(os.environ, VERIF_REPO=wt, VERIF_OUT_DIR=outdir)
                r = sh([os.path.join(VERIF, "check"), c, tier], env=env, cwd=VERIF)
                viol = [ln for ln in r.stdout.splitlines() if ln.startswith("VIOLATION")]
                sigs = [ln.strip() for ln in r.stdout.splitlines() if ln.strip().startswith("signature=")]
                results["%s:%s" % (c, tier)] = {"rc": r.returncode, "violations": len(viol), "wall_s": round(time.time() - t0, 1),
                                                "signatures": [s[:300] for s in sigs[:4]],
                                                "tail": r.stdout.strip().splitlines()[-1][:300] if r.stdout.strip() else ""}
                if r.returncode == 1:
                    break
        shutil.rmtree(outdir, ignore_errors=True)
        out["checks"] = results
        out["caught"] = any(v["rc"] == 1 for v in results.values())
        out["ran"] = log
        if out["confirmed"]:
            dst = os.path.join(VERIF, "seeded", "%s-%s%s" % (pid, tag, k))
            os.makedirs(dst, exist_ok=True)
            shutil.copy(patch, os.path.join(dst, "patch.diff"))
            shutil.copy(demo, os.path.join(dst, "demo.py"))
            m2 = {"property": pid, "summary": meta.get("summary"), "needs": meta.get("needs"), "files": meta.get("files"),
                  "agent_report": meta.get("ran"), "verified": log,
                  "how_to_run_demo": "PYTHONPATH=<overlay of the patched tree> /venv/bin/python demo.py (exit 1 / FAIL with the change, exit 0 / PASS without)",
                  "checks": results, "caught": out["caught"]}
            with open(os.path.join(dst, "meta.json"), "w") as f:
                json.dump(m2, f, indent=1)
        print(json.dumps(out, indent=1))
    finally:
        sh(["git", "-C", "/repo", "worktree", "remove", "--force", wt])
        shutil.rmtree(wt, ignore_errors=True)
        sh(["git", "-C", "/repo", "worktree", "prune"])
    return 0


if __name__ == "__main__":
    sys.exit(main())
