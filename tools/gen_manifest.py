#!/venv/bin/python
"""Regenerate /verif/MANIFEST.json from the table below and the check modules that exist."""
import importlib
import json
import os
import sys

VERIF = os.path.dirname(os.path.dirname(os.path.abspath(__file__)))
sys.path.insert(0, VERIF)

ALL = ["C%02d" % i for i in range(1, 21)]

LEVEL_TEXT = {
    "C01": "Generated (configuration, write sequence, read range) cases compared with an exact integer model, through both the Python writer and the C API (ASan/UBSan). Exploration: held on every case generated; absence is not established.",
    "C02": "Every point between two file-system operations of a generated recording is visited (LD_PRELOAD interposer pauses the writer; a sample of points is re-run with a real SIGKILL) and the on-disk tree is judged by the oracle. Exhaustive over the crash points of each generated sequence, sampled over sequences.",
    "C03": "Exhaustive small-scope enumeration plus residue-directed Hypothesis sampling over the full stated domain plus a libFuzzer/UBSan target with an __int128 oracle.",
    "C04": "Generated recordings inspected file-by-file with raw h5py against big-integer placement; boundary-directed start indices.",
    "C05": "Stateful generated histories mixing valid and invalid calls through the Python writer and the C API; byte-level tree snapshots around each rejected call and a differential run without the rejected calls.",
    "C06": "Every file of generated recordings is inspected raw; properties regenerated from every file and read back.",
    "C07": "Outer product of element-type cells with generated gap layouts in continuous mode; fill slots judged after byte-order interpretation.",
    "C08": "Metamorphic relations between reader queries on generated channels.",
    "C09": "Reader passes at every writer file-system operation (owned schedule) plus free-running writer/reader processes.",
    "C10": "Every single-fault schedule (op x errno x once/persistent) of generated recordings through the C API, sampled through Python.",
    "C11": "Stateful generated session histories over 1-3 top-level directories against a union model.",
    "C12": "Stateful generated write/read histories of Digital Metadata against a dict model.",
    "C13": "Boundary-directed (rate, cadence, index) triples written with the real writer; location compared with big-integer arithmetic.",
    "C14": "Generated directory trees x option sets compared with a set-theoretic oracle computed from the generated description.",
    "C15": "Exhaustive enumeration of the bounded event/path grammar, differential against listing; plus live scenarios with the real DirWatcher threads (verdicts by sentinel, never by timeout).",
    "C16": "Exhaustive short event sequences plus long stateful histories on real files against a model of the tracked set (API and command-line construction, windows, relative roots); plus live scenarios with the real observer threads.",
    "C17": "Generated recordings and perturbed event histories through the mirror handlers with file-system primitives wrapped for checkpoints (API and command-line construction); plus live scenarios with DigitalRFMirror.start() and the real observer threads.",
    "C18": "Generated trees x command lines, differential against listing.",
    "C19": "Stateful generated histories (shared with C05) comparing every getter with model counters after every step.",
    "C20": "Stateful generated interleavings of metadata/RF writes and reads with tree snapshots around every read-only call.",
}
NOTE = "Trusted: Hypothesis generation, the check's own reference model/oracle (independent integer arithmetic), h5py for raw inspection, overlay build of /repo's working tree against system HDF5 1.10.8."


def main():
    checks = []
    na = []
    for pid in ALL:
        try:
            mod = importlib.import_module("checks." + pid.lower())
        except ImportError:
            na.append({"property_id": pid, "reason": "check not built yet in this round (work in progress; the technique applies - see DESIGN.md section 4)"})
            continue
        ent = {
            "property_id": pid,
            "quick_cmd": "./check %s quick" % pid,
            "thorough_cmd": "./check %s thorough" % pid,
            "evidence_file": "/verif/evidence/%s.json" % pid,
            "replay_cmd_template": "./check %s --replay {path}" % pid,
            "engine": getattr(mod, "ENGINE", "pbt"),
            "level_claimed": {"category": mod.LEVEL, "text": LEVEL_TEXT[pid], "design_ref": "DESIGN.md section 4, " + pid},
            "level_note": NOTE + " " + " ".join(getattr(mod, "ASSUMPTIONS", [])[:2]),
            "technique": getattr(mod, "TECHNIQUE", "property-based testing"),
        }
        checks.append(ent)
    man = {
        "version": 1,
        "setup_cmd": "/venv/bin/python vlib/build.py py driver asan fsx timelib fuzz && (/venv/bin/pip install -q --no-index --find-links /opt/veriftools/wheels --target /verif/.deps atheris || echo 'atheris not installed: the coverage-guided Python engine of C14 thorough is skipped')",
        "hooks": {
            "guard": "DIGITAL_RF_VERIF",
            "enable": "no source hooks: the overlay build compiles /repo unmodified (-DDIGITAL_RF_VERIF=1 is defined but nothing in /repo tests it); observation is by LD_PRELOAD interposer and in-process wrappers",
            "baseline_off_cmd": "cd /repo && /venv/bin/python -m pytest -ra -q -p no:cacheprovider --timeout=900 --continue-on-collection-errors",
            "source_commits": [],
            "add_only": True,
        },
        "engines": [
            {"name": "pbt", "path": "vlib/campaign.py", "kind_free_text": "Hypothesis 6.168 (plain and stateful) with collect-bucket-shrink runner"},
            {"name": "cdriver", "path": "csrc/drf_driver.c", "kind_free_text": "C replay driver for the public C API, gcc and clang ASan+UBSan builds"},
            {"name": "fsx", "path": "csrc/fsx_interpose.c", "kind_free_text": "LD_PRELOAD interposer: count / pause / kill / fail file-system operations"},
            {"name": "cfuzz", "path": "csrc/fuzz_time.c", "kind_free_text": "libFuzzer + UBSan target with __int128 oracle"},
            {"name": "enum", "path": "vlib/campaign.py", "kind_free_text": "exhaustive enumeration of finite scopes"},
            {"name": "atheris", "path": "tools/atheris_c14.py", "serves_properties": ["C14"], "kind_free_text": "atheris 3.1 (libFuzzer for Python) driving the Hypothesis strategy of C14 through fuzz_one_input with coverage from digital_rf.list_drf (thorough tier)"},
        ],
        "checks": checks,
        "not_applicable": na,
        "notes": "All checks rebuild an overlay of /repo's working tree keyed by source hash (vlib/build.py). known_findings.json lists genuine defects (fixed / open).",
    }
    with open(os.path.join(VERIF, "MANIFEST.json"), "w") as f:
        json.dump(man, f, indent=1)
    print("claimed:", [c["property_id"] for c in checks])


if __name__ == "__main__":
    main()
