#!/bin/sh
# usage: run_all.sh [quick|thorough] [seed]   - runs every registered check once, prints one summary line per check
TIER=${1:-quick}; SEED=${2:-1}
cd "$(dirname "$0")/.."
BAD=0
for i in 01 02 03 04 05 06 07 08 09 10 11 12 13 14 15 16 17 18 19 20; do
  OUT=$(VERIF_SEED=$SEED ./check C$i $TIER 2>&1); RC=$?
  echo "rc=$RC $(echo "$OUT" | grep -E "^C$i tier=" | tail -1)"
  if [ $RC -ne 0 ]; then BAD=1; echo "$OUT" | grep -E "VIOLATION|HARNESS|signature" | head -6; fi
done
exit $BAD
