#!/bin/sh
# usage: run_all_par.sh [quick|thorough] [seed]   - like run_all.sh, but all checks at once (development: a fast "nothing is broken")
# Evidence / replay files go to a scratch directory unless VERIF_OUT_DIR is set by the caller.
TIER=${1:-quick}; SEED=${2:-1}
cd "$(dirname "$0")/.."
OUT=${VERIF_OUT_DIR:-$(mktemp -d /dev/shm/runall-XXXXXX)}
for i in 01 02 03 04 05 06 07 08 09 10 11 12 13 14 15 16 17 18 19 20; do
  (VERIF_OUT_DIR=$OUT VERIF_SEED=$SEED ./check C$i $TIER > $OUT/C$i.log 2>&1; echo "rc=$? $(grep -E "^C$i tier=" $OUT/C$i.log | tail -1)$(grep -E 'VIOLATION|HARNESS' $OUT/C$i.log | head -2 | tr '\n' ' ')") &
done
wait
[ -z "$VERIF_OUT_DIR" ] && rm -rf "$OUT"
