#!/venv/bin/python
"""Child process: run a generated op list through the Python DigitalRFWriter (used under the fsx interposer).

usage: py_writer_proc.py <overlay> <case.json> <chdir> <log>
Logs BEGIN/END lines in the same format as drf_driver (op 0 = init, last = close)."""
import json
import os
import sys

ovl, casep, chdir, logp = sys.argv[1:5]
sys.path.insert(0, ovl)
sys.path.insert(0, os.path.dirname(os.path.dirname(os.path.abspath(__file__))))
import warnings

warnings.filterwarnings("ignore")
from vlib import rfharness  # noqa: E402

case = json.load(open(casep))
cfg, ops = case["cfg"], case["ops"]
log = os.open(logp, os.O_WRONLY | os.O_CREAT | os.O_APPEND, 0o644)


def out(s):
    os.write(log, s.encode())


out("BEGIN 0 init\n")
try:
    w = rfharness.open_py_writer(cfg, chdir)
    out("END 0 0 0 |\n")
except Exception:
    out("END 0 -1 0 |\n")
    sys.exit(0)
end = os.environ.get("PYW_END", "close")
forked_parent = False
if end == "fork":
    # the writer was opened by this process; a forked worker records and closes it (one worker per channel is a usual layout
    # of multi-channel recorders).  This process never touches the writer again and leaves without any clean-up
    _pid = os.fork()
    if _pid != 0:
        _, _status = os.waitpid(_pid, 0)
        os._exit(0 if _status == 0 else 4)
    end = "close"
    forked_child = True
else:
    forked_child = False
for i, op in enumerate(ops):
    out("BEGIN %d %s\n" % (i + 1, op["op"]))
    r = rfharness.py_issue(w, cfg, op, op.get("cid", i))
    out("END %d %d %d |\n" % (i + 1, 0 if r[0] == "ok" else -1, r[1] if r[0] == "ok" else 0))
out("BEGIN %d close\n" % (len(ops) + 1))


class _AppError(Exception):
    pass


try:
    if end == "with":
        with w:
            pass
    elif end == "withexc":
        # the recording's with block is left by an exception of the application: what reaches the caller?
        try:
            with w:
                raise _AppError("stop recording")
        except _AppError:
            pass  # only the application's exception came out: the writer reported nothing
    elif end == "atexit":
        # the recording script simply ends: the writer is a module-level object that is alive when the interpreter shuts
        # down (no close(), no with block, no del)
        out("END %d 0 0 |\n" % (len(ops) + 1))
        sys.exit(0)
    else:
        w.close()
    out("END %d 0 0 |\n" % (len(ops) + 1))
except Exception:
    out("END %d -1 0 |\n" % (len(ops) + 1))
# the writer is closed but the process (and the `w` variable) lives on: one more observable point for a reader
try:
    open(os.path.join(chdir, ".verif-after-close"), "rb").close()
except OSError:
    pass
if forked_child:
    os._exit(0)
