#!/venv/bin/python
"""Coverage-guided campaign for C14 (listing): libFuzzer (atheris) drives the SAME Hypothesis strategy and oracle as
checks/c14.py through `fuzz_one_input`, with coverage feedback from digital_rf.list_drf.

usage: atheris_c14.py <result.json> [libFuzzer args...]   e.g. -max_total_time=120 -seed=3 <corpus dir>

Writes {"execs": N, "failures": [[signature, detail, case], ...]} to result.json.  Failures never abort the campaign
(collect, bucket, continue); the first case of each signature is kept.
"""
import json
import os
import sys

VERIF = os.path.dirname(os.path.dirname(os.path.abspath(__file__)))
sys.path.insert(0, VERIF)
sys.path.insert(0, os.path.join(VERIF, ".deps"))
os.environ["TZ"] = os.environ.get("VERIF_TZ", "EST5EDT,M3.2.0,M11.1.0")
import time

time.tzset()

import atheris  # noqa: E402

from vlib import build  # noqa: E402

build.activate(want=("py",))
with atheris.instrument_imports(include=["digital_rf.list_drf"]):
    import digital_rf.list_drf  # noqa: F401,E402
    import digital_rf  # noqa: E402

from hypothesis import HealthCheck, given, settings  # noqa: E402

from checks import c14  # noqa: E402

result_path = sys.argv[1]
state = {"execs": 0, "failures": {}}


@settings(database=None, deadline=None, suppress_health_check=list(HealthCheck), max_examples=10 ** 9)
@given(c14.strategy("thorough"))
def prop(case):
    state["execs"] += 1
    res = c14.run_case(case)
    for sig, detail in res.failures:
        if sig not in state["failures"]:
            state["failures"][sig] = [sig, detail, case]


def dump():
    with open(result_path, "w") as f:
        json.dump({"execs": state["execs"], "failures": list(state["failures"].values())}, f, default=str)


def one_input(data):
    try:
        prop.hypothesis.fuzz_one_input(data)
    finally:
        if state["execs"] % 50 == 0:
            dump()


if __name__ == "__main__":
    argv = [sys.argv[0]] + sys.argv[2:]
    atheris.Setup(argv, one_input)
    try:
        atheris.Fuzz()
    finally:
        dump()
