"""Execute generated write sequences through the Python writer or the C driver."""
from __future__ import annotations

import contextlib
import io
import json
import os
import shutil
import subprocess
import sys
import tempfile
import warnings

from . import build, rfmodel

warnings.filterwarnings("ignore")

_SCRATCH_BASE = "/dev/shm" if os.path.isdir("/dev/shm") and os.access("/dev/shm", os.W_OK) else None


def scratch_dir(prefix="drfv"):
    return tempfile.mkdtemp(prefix=prefix + "-", dir=_SCRATCH_BASE)


@contextlib.contextmanager
def scratch(prefix="drfv"):
    d = scratch_dir(prefix)
    try:
        yield d
    finally:
        shutil.rmtree(d, ignore_errors=True)
        if os.path.isdir(d):
            # (a case that restricted permissions and was interrupted: directories must be writable to be emptied)
            for dp, dn, _fn in os.walk(d):
                for x in [dp] + [os.path.join(dp, y) for y in dn]:
                    try:
                        os.chmod(x, 0o755)
                    except OSError:
                        pass
            shutil.rmtree(d, ignore_errors=True)


@contextlib.contextmanager
def quiet_fds():
    """Silence the C library's stderr/stdout chatter (fd level)."""
    sys.stdout.flush()
    sys.stderr.flush()
    devnull = os.open(os.devnull, os.O_WRONLY)
    save2 = os.dup(2)
    save1 = os.dup(1)
    os.dup2(devnull, 2)
    os.dup2(devnull, 1)  # (the C library prints its "marching periods" to stdout)
    try:
        yield
    finally:
        sys.stderr.flush()
        sys.stdout.flush()
        os.dup2(save2, 2)
        os.dup2(save1, 1)
        os.close(save2)
        os.close(save1)
        os.close(devnull)


def drf():
    import digital_rf

    return digital_rf


def writer_dtype(cfg):
    """dtype argument + is_complex for DigitalRFWriter for this config/form."""
    import numpy as np

    rd = np.dtype("%s%s%d" % (cfg["order"], cfg["kind"], cfg["size"]))
    if not cfg["cplx"]:
        return rd, False
    form = cfg.get("form", "struct")
    if form == "native" and cfg["kind"] == "f":
        return np.dtype("%sc%d" % (cfg["order"], cfg["size"] * 2)), True
    if form == "interleaved":
        return rd, True
    return np.dtype([("r", rd), ("i", rd)]), True


def open_py_writer(cfg, chdir):
    """Construct the Python writer.  cfg["callconv"] chooses among calling conventions that are documented to be equivalent:
    bit 0: marching_periods (progress dots on stdout); bit 1: every argument positional, in the documented order, instead
    of keywords; bits 2-3 (complex dtypes only): is_complex given as True / left at its default / given as False - for a
    complex or ('r','i') dtype the option is documented to be ignored."""
    dt, is_c = writer_dtype(cfg)
    cc = cfg.get("callconv", 0)
    marching = bool(cc & 1)
    complex_dtype = getattr(dt, "names", None) is not None or dt.kind == "c"
    isc_mode = (cc >> 2) & 3 if complex_dtype else 0
    is_complex_arg = is_c if isc_mode in (0, 1) else False
    W = drf().DigitalRFWriter
    if (cc >> 1) & 1 and isc_mode != 1:
        return W(chdir, dt, cfg["S"], cfg["F"], cfg["start"], cfg["n"], cfg["d"], cfg.get("uuid", "verif"), cfg["comp"],
                 bool(cfg["checksum"]), is_complex_arg, cfg["nsub"], bool(cfg["cont"]), marching)
    kw = dict(uuid_str=cfg.get("uuid", "verif"), compression_level=cfg["comp"], checksum=bool(cfg["checksum"]),
              num_subchannels=cfg["nsub"], is_continuous=bool(cfg["cont"]), marching_periods=marching)
    if isc_mode != 1:
        kw["is_complex"] = is_complex_arg
    return W(chdir, dt, cfg["S"], cfg["F"], cfg["start"], cfg["n"], cfg["d"], **kw)


def py_getters(w):
    return {
        "next": w.get_next_available_sample(),
        "written": w.get_total_samples_written(),
        "gap": w.get_total_gap_samples(),
        "last_file": w.get_last_file_written(),
        "last_dir": w.get_last_dir_written(),
    }


def py_issue(w, cfg, op, call):
    """Issue one op on an open Python writer.  Returns ('ok', ret) or ('err', exc)."""
    import numpy as np

    arr = rfmodel.call_array(cfg, op.get("cid", call), op["len"])
    if op.get("raw"):
        # deliberately malformed index arguments are passed exactly as generated (lists may differ in length)
        try:
            g_, d_ = op["g"], op["d"]
            rt = op.get("rawtype", "list")
            if rt != "list" and all(isinstance(x, int) and abs(x) < (1 << (31 if rt == "i32" else 63)) for x in list(g_) + list(d_)):
                g_, d_ = np.array(g_, dtype="int64" if rt == "i64" else "int32"), np.array(d_, dtype="int64" if rt == "i64" else "int32")
            with quiet_fds():
                ret = w.rf_write_blocks(arr, g_, d_)
            return ("ok", int(ret))
        except Exception as e:
            return ("err", "%s: %s" % (type(e).__name__, str(e)[:200]))
    g = d = None
    try:
        with quiet_fds():
            form = op.get("argform", "plain")
            if form == "strided":
                # non-contiguous inputs: the data as every second row of a larger array, the index arrays as strided
                # views of an interleaved (start, filler) array - the documented inputs are "array_like"
                big = np.zeros((2 * arr.shape[0],) + arr.shape[1:], dtype=arr.dtype)
                big[0::2] = arr
                arr = big[0::2]
            elif form == "swapped" and arr.dtype.itemsize > 1:
                # same values in the opposite byte order: the writer has to convert to the stored order
                arr = arr.astype(arr.dtype.newbyteorder("S"))
            elif form == "onedim" and cfg["nsub"] == 1 and arr.ndim == 2 and arr.shape[1] in (1, 2) and arr.dtype.names is None \
                    and (arr.shape[1] == 1 or (cfg["cplx"] and cfg.get("form") == "interleaved")):
                # documented: a 1-D array for a single-subchannel writer (for interleaved I/Q input: 2N values for N samples)
                arr = arr.reshape(-1)
            elif form == "onedim" and cfg["nsub"] == 1 and arr.ndim == 2 and arr.shape[1] == 1:
                arr = arr.reshape(-1)
            elif form in ("cplxnd", "cplxnd-other") and cfg["cplx"] and cfg["kind"] == "f":
                # documented: "a complex array" is accepted by every complex writer, whichever way its element type was
                # declared (complex dtype, ('r','i') dtype, real dtype + is_complex) and in either byte order; the
                # conversions below only re-order bytes, so the stored bits are still the generated ones
                nat = np.dtype("=f%d" % cfg["size"])
                if arr.dtype.names is not None:
                    arr = np.ascontiguousarray(arr.astype([("r", nat), ("i", nat)])).view(np.dtype("=c%d" % (2 * cfg["size"])))
                elif arr.dtype.kind == "f":
                    arr = np.ascontiguousarray(arr.astype(nat)).view(np.dtype("=c%d" % (2 * cfg["size"])))
                if (form == "cplxnd-other") == (arr.dtype.byteorder in ("=", "<")):
                    arr = arr.astype(arr.dtype.newbyteorder(">"))
                elif arr.dtype.byteorder == ">":
                    arr = arr.astype(arr.dtype.newbyteorder("<"))
            if op["op"] == "w":
                if form == "defnext" and op["idx"] == w.get_next_available_sample():
                    ret = w.rf_write(arr)  # next_sample=None: "the next available sample after previous writes"
                elif form == "npidx":
                    ret = w.rf_write(arr, np.uint64(op["idx"]))
                else:
                    ret = w.rf_write(arr, op["idx"])
            else:
                g = np.array(op["g"], dtype=np.uint64)
                d = np.array(op["d"], dtype=np.uint64)
                if form == "strided":
                    gi = np.full(2 * len(g), 2 ** 40, dtype=np.uint64)
                    di = np.full(2 * len(d), 2 ** 40, dtype=np.uint64)
                    gi[0::2], di[0::2] = g, d
                    g, d = gi[0::2], di[0::2]
                elif form == "list":
                    g, d = [int(x) for x in op["g"]], [int(x) for x in op["d"]]
                elif form == "int64":
                    g, d = g.astype(np.int64), d.astype(np.int64)
                ret = w.rf_write_blocks(arr, g, d)
        if form == "reuse":
            # the application's ONE buffer: once the call has returned it is filled with the next data (here: a
            # pattern).  What was accepted must have been taken over by then; the index arrays likewise
            for obj in (arr, g, d):
                if isinstance(obj, np.ndarray) and obj.flags.writeable and obj.flags.c_contiguous and obj.dtype.kind != "O":
                    obj.view(np.uint8).reshape(-1)[...] = 0xA5
        return ("ok", int(ret))
    except Exception as e:  # the contract is "rejected with an error": any type
        return ("err", "%s: %s" % (type(e).__name__, str(e)[:200]))


def run_python_proc(cfg, ops, chdir, end, workdir):
    """The ops through DigitalRFWriter in a process of its own whose END is the point (tools/py_writer_proc.py):
    "atexit" - the script just ends with the writer alive at interpreter shutdown; "fork" - the writer is opened by the
    process, a forked worker records and closes.  Returns the same list as run_python (getters are not available)."""
    import subprocess
    ovl = build.ensure(want=("py",))
    os.makedirs(chdir, exist_ok=True)
    cp, lp = os.path.join(workdir, "proc-case.json"), os.path.join(workdir, "proc-log.txt")
    with open(cp, "w") as f:
        json.dump({"cfg": cfg, "ops": ops}, f)
    if os.path.exists(lp):
        os.unlink(lp)
    env = dict(os.environ, PYW_END=end, PYTHONWARNINGS="ignore")
    p = subprocess.run([sys.executable, os.path.join(os.path.dirname(os.path.dirname(os.path.abspath(__file__))), "tools", "py_writer_proc.py"),
                        ovl, cp, chdir, lp], env=env, stdout=subprocess.DEVNULL, stderr=subprocess.PIPE, timeout=300)
    ends = {e[1]: e for e in parse_log(lp) if e[0] == "END"}
    out = []
    for i in range(len(ops)):
        e = ends.get(i + 1)
        out.append({"status": "ok" if e and e[2] == 0 else "err", "ret": e[3] if e else "no END line (rc=%s %s)" % (p.returncode, p.stderr.decode(errors="replace")[-200:]), "get": None})
    e = ends.get(len(ops) + 1)
    ok = e is not None and e[2] == 0 and p.returncode == 0
    out.append({"status": "closed" if ok else "close-failed", "ret": "rc=%s %s" % (p.returncode, p.stderr.decode(errors="replace")[-300:])})
    return out


_KEEPALIVE = []  # the writer object of the last "withexc" session: the caller's `as` variable outlives the with block


def run_python(cfg, ops, chdir, per_step=None, end="close", sibling=None):
    """run_python_plain, possibly (cfg["sigtimer"]) in a process that receives a periodic signal with a Python-level
    handler all the time - an interval timer as profilers, watchdogs and event loops install: system calls of the library
    may be interrupted, the interpreter runs the handler between two calls"""
    if not cfg.get("sigtimer"):
        return run_python_plain(cfg, ops, chdir, per_step, end, sibling)
    import signal
    import threading
    if threading.current_thread() is not threading.main_thread():
        return run_python_plain(cfg, ops, chdir, per_step, end, sibling)
    old = signal.signal(signal.SIGALRM, lambda s_, f_: None)
    signal.setitimer(signal.ITIMER_REAL, 0.0003, 0.0003)
    try:
        return run_python_plain(cfg, ops, chdir, per_step, end, sibling)
    finally:
        signal.setitimer(signal.ITIMER_REAL, 0, 0)
        signal.signal(signal.SIGALRM, old)


def run_python_plain(cfg, ops, chdir, per_step=None, end="close", sibling=None):
    """Run ops through DigitalRFWriter.  Returns list of per-op results.

    end: how the session ends - "close" (explicit close()), "with" (context manager), "del" (the writer object is just
    dropped: the extension's capsule destructor has to finalize the last file)."""
    import gc

    os.makedirs(chdir, exist_ok=True)
    del _KEEPALIVE[:]
    w2 = None
    if sibling:
        # a second writer object in this process (another channel directory), written alternately with the primary one
        sib_dir = os.path.join(os.path.dirname(chdir), "_sib", "x", "ch0")  # too deep for a reader of the top directory
        os.makedirs(sib_dir, exist_ok=True)
        with quiet_fds():
            w2 = open_py_writer(sibling["cfg"], sib_dir)
    with quiet_fds():
        w = open_py_writer(cfg, chdir)
    results = []
    last = None
    try:
        sops = []
        if w2 is not None:
            from . import strategies
            sops = strategies.sibling_ops(cfg, ops, sibling)
            py_issue(w2, sibling["cfg"], sops[0], 1000)
        sib_thread = None
        if w2 is not None and (cfg["salt"] + cfg["start"]) % 3 == 0:
            # the other channel is recorded by ANOTHER THREAD of the process at the same time (one thread per channel):
            # its calls fall between any two interpreter steps of the primary writer's calls.  (The thread calls the writer
            # directly: the fd-level silencing used elsewhere is process-wide and not for two threads at once.)
            import threading

            def _record_sibling():
                for j_, sop in enumerate(sops[1:]):
                    if sop is None:
                        continue
                    try:
                        arr_ = rfmodel.call_array(sibling["cfg"], 1001 + j_, sop["len"])
                        if sop["op"] == "w":
                            w2.rf_write(arr_, sop["idx"])
                        else:
                            w2.rf_write_blocks(arr_, sop["g"], sop["d"])
                    except Exception:
                        pass
            sib_thread = threading.Thread(target=_record_sibling)
            sib_thread.start()
        for call, op in enumerate(ops):
            r = py_issue(w, cfg, op, call)
            g = py_getters(w)
            results.append({"status": r[0], "ret": r[1], "get": g})
            if per_step:
                per_step(call, op, results[-1], w)
            if sib_thread is None and w2 is not None and call + 1 < len(sops) and sops[call + 1] is not None:
                py_issue(w2, sibling["cfg"], sops[call + 1], 1001 + call)
        if sib_thread is not None:
            sib_thread.join(60)
    finally:
        with quiet_fds():
            if w2 is not None:
                try:
                    w2.close()
                except Exception:
                    pass
            close_err = None
            try:
                if end == "del":
                    last = py_getters(w)
                    del w
                    gc.collect()
                elif end == "with":
                    with w:
                        pass
                elif end == "withexc":
                    # the with block is left by an exception of the application: the writer is closed all the same, and a
                    # failure to finalize must not be lost behind the application's exception
                    class _AppError(Exception):
                        pass
                    _KEEPALIVE.append(w)
                    try:
                        with w:
                            raise _AppError("stop recording")
                    except _AppError as e:
                        ctx = e.__context__ or e.__cause__
                        if ctx is not None:
                            raise ctx
                else:
                    w.close()
            except Exception as e:  # reported by the caller: after valid calls only, finalizing must succeed
                close_err = "%s: %s" % (type(e).__name__, e)
    results.append({"status": "closed" if close_err is None else "close-failed", "ret": close_err,
                    "get": last if end == "del" else py_getters(w)})
    return results


def script_lines(cfg, ops, chdir):
    lines = ["init %s %s %d %s %d %d %d %d %d %s %d %d %d %d %d %d" % (
        chdir, cfg["kind"], cfg["size"], cfg["order"], cfg["S"], cfg["F"], cfg["start"], cfg["n"], cfg["d"],
        cfg.get("uuid", "verif") or "@EMPTY@", cfg["comp"], cfg["checksum"], cfg["cplx"], cfg["nsub"], cfg["cont"], cfg["salt"])]
    for op in ops:
        if "cid" in op:
            lines.append("cid %d" % op["cid"])
        if op["op"] == "w":
            lines.append("w %d %d" % (op["idx"], op["len"]))
        elif op["op"] == "n":
            lines.append("n %d %d" % (op["idx"], op["len"]))
        else:
            k = len(op["g"])
            lines.append("b %d %d %s" % (op["len"], k, " ".join("%d %d" % (op["g"][i], op["d"][i]) for i in range(k))))
    lines.append("close")
    return lines


def parse_log(path):
    """Parse the merged driver/interposer log into a list of events."""
    ev = []
    if not os.path.exists(path):
        return ev
    with open(path, errors="replace") as f:
        for ln in f:
            p = ln.rstrip("\n").split(" ")
            if p[0] == "BEGIN":
                ev.append(("BEGIN", int(p[1]), p[2]))
            elif p[0] == "END":
                rest = " ".join(p[4:])
                lf, _, ld = rest.partition("|")
                ev.append(("END", int(p[1]), int(p[2]), int(p[3]), lf, ld))
            elif p[0] == "OP":
                ev.append(("OP", int(p[1]), p[2], p[3], int(p[4]), int(p[5])))
    return ev


def run_driver(cfg, ops, chdir, workdir, asan=False, env_extra=None, timeout=120, script=None):
    """Run ops through the C API.  Returns (returncode, events, stderr_text)."""
    os.makedirs(chdir, exist_ok=True)
    ovl = build.ensure(want=("driver", "asan") if asan else ("driver",))
    exe = os.path.join(ovl, "bin", "drf_driver_asan" if asan else "drf_driver")
    sp = os.path.join(workdir, "script.txt")
    lp = os.path.join(workdir, "log.txt")
    if os.path.exists(lp):
        os.unlink(lp)
    with open(sp, "w") as f:
        f.write("\n".join(script if script is not None else script_lines(cfg, ops, chdir)) + "\n")
    env = dict(os.environ)
    env["ASAN_OPTIONS"] = "detect_leaks=0:abort_on_error=0:exitcode=97"
    env["UBSAN_OPTIONS"] = "halt_on_error=1:exitcode=98:print_stacktrace=1"
    if env_extra:
        env.update(env_extra)
    try:
        p = subprocess.run([exe, sp, lp], env=env, stdout=subprocess.PIPE, stderr=subprocess.PIPE, timeout=timeout)
        rc, err = p.returncode, p.stderr.decode(errors="replace")
    except subprocess.TimeoutExpired:
        # a time budget that runs out is inconclusive, never a verdict
        from .campaign import HarnessError
        raise HarnessError("drf_driver did not finish within %d s (machine overloaded?)" % timeout)
    return rc, parse_log(lp), err


def driver_results(events, nops):
    """Per-op results (including init as op 0 and close as last) from END events."""
    out = {}
    for e in events:
        if e[0] == "END":
            out[e[1]] = {"rc": e[2], "gi": e[3], "last_file": e[4], "last_dir": e[5]}
    return out


# ---------------------------------------------------------------- reading
def read_blocks(reader, a, b, ch, sub_channel=None):
    with quiet_fds():
        d = reader.read(a, b, ch, sub_channel)
    return list(d.items())


def check_read(cfg, model, reader, ch, a, b, again=True):
    """Compare reader.read(a, b) with the model.  Returns None or failure text.

    The caller then does what applications do with a result - works on it in place (here: overwrites it) - and asks the
    same question once more: what a reader returns must come from the files, not from what the caller did to an
    earlier result."""
    r = _check_read_once(cfg, model, reader, ch, a, b, scribble=again)
    if r is None and again and b - a < 200000:
        r = _check_read_once(cfg, model, reader, ch, a, b, scribble=False)
        if r is not None:
            r = (r[0], r[1] + " [second read of the same range, after the caller had overwritten the first result in place]")
    return r


def _check_read_once(cfg, model, reader, ch, a, b, scribble):
    exp = model.expected_blocks(a, b)
    try:
        got = read_blocks(reader, a, b, ch)
    except Exception as e:
        return ("read-exception", "read(%d,%d): %s: %s" % (a, b, type(e).__name__, e))
    try:
        return _compare_read(cfg, got, exp, a, b)
    finally:
        if scribble:
            for _k, arr in got:
                if hasattr(arr, "flags") and arr.flags.writeable and arr.flags.c_contiguous:
                    arr.view("u1")[...] = 0x5A


def _compare_read(cfg, got, exp, a, b):
    if len(got) != len(exp):
        gk = [int(k) for k, _ in got]
        ek = [e[0] for e in exp]
        kind = "missing-block" if len(got) < len(exp) else "extra-block"
        # refine: same keys but one is split/merged
        return (kind, "read(%d,%d): blocks %s lens %s, expected %s lens %s" % (
            a, b, gk[:6], [len(v) for _, v in got][:6], ek[:6], [len(e[1]) // rfmodel.sample_nbytes(cfg) for e in exp][:6]))
    for (k, arr), e in zip(got, exp):
        msg = rfmodel.compare_block(cfg, e, int(k), arr)
        if msg:
            if "length" in msg:
                kind = "short-block" if arr.shape[0] < len(e[1]) // rfmodel.sample_nbytes(cfg) else "long-block"
            elif "start" in msg:
                kind = "block-start"
            elif "fill" in msg:
                kind = "fill-value"
            elif "dtype" in msg or "shape" in msg:
                kind = "dtype-shape"
            else:
                kind = "wrong-value"
            return (kind, "read(%d,%d): %s" % (a, b, msg))
    return None


# ---------------------------------------------------------------- raw inspection
def raw_files(chdir):
    """relpath -> dict(index=ndarray (rows,2) of python ints, data_len, attrs, dtype, shape, path) for every *.h5
    below chdir's timestamped subdirectories (any name), plus a list of other entries."""
    import h5py

    out = {}
    others = []
    for sub in sorted(os.listdir(chdir)):
        p = os.path.join(chdir, sub)
        if not os.path.isdir(p):
            others.append(sub)
            continue
        for fn in sorted(os.listdir(p)):
            rel = sub + "/" + fn
            fp = os.path.join(p, fn)
            if not fn.endswith(".h5") or fn.startswith("tmp."):
                others.append(rel)
                continue
            try:
                with h5py.File(fp, "r") as f:
                    ds = f["rf_data"]
                    idx = f["rf_data_index"][...]
                    attrs = {}
                    for k, v in ds.attrs.items():
                        try:
                            v = v.item()
                        except AttributeError:
                            pass
                        if isinstance(v, bytes):
                            v = v.decode("ascii", "replace")
                        attrs[k] = v
                    out[rel] = {
                        "index": [[int(r[0]), int(r[1])] for r in idx],
                        "index_shape": tuple(idx.shape),
                        "data_len": int(ds.shape[0]),
                        "shape": tuple(ds.shape),
                        "dtype": ds.dtype,
                        "attrs": attrs,
                        "chunks": ds.chunks,
                        "path": fp,
                    }
            except Exception as e:
                out[rel] = {"error": "%s: %s" % (type(e).__name__, e), "path": fp}
    return out, others


def stored_ranges(info):
    """[(first index, length)] described by a file's block index."""
    rows = info["index"]
    out = []
    for i, (s, off) in enumerate(rows):
        nxt = rows[i + 1][1] if i + 1 < len(rows) else info["data_len"]
        out.append((s, nxt - off))
    return out


def merge_ranges(ranges):
    out = []
    for s, ln in sorted(ranges):
        if ln <= 0:
            continue
        if out and out[-1][0] + out[-1][1] == s:
            out[-1][1] += ln
        else:
            out.append([s, ln])
    return [tuple(x) for x in out]


class DriverSession:
    """Interactive drf_driver process: one op at a time, so the harness can look at the tree in between."""

    def __init__(self, workdir, asan=False):
        ovl = build.ensure(want=("driver", "asan") if asan else ("driver",))
        exe = os.path.join(ovl, "bin", "drf_driver_asan" if asan else "drf_driver")
        self.log = os.path.join(workdir, "session-log.txt")
        env = dict(os.environ)
        env["ASAN_OPTIONS"] = "detect_leaks=0:abort_on_error=0:exitcode=97"
        env["UBSAN_OPTIONS"] = "halt_on_error=1:exitcode=98:print_stacktrace=1"
        self.errf = open(os.path.join(workdir, "session-stderr.txt"), "w+")
        self.p = subprocess.Popen([exe, "-", self.log], stdin=subprocess.PIPE, stdout=subprocess.PIPE,
                                  stderr=self.errf, env=env, text=True, bufsize=1)

    def send(self, line):
        """Send one script line, return dict(rc, gi, last_file, last_dir) or None if the driver died."""
        try:
            self.p.stdin.write(line + "\n")
            self.p.stdin.flush()
        except BrokenPipeError:
            return None
        out = self.p.stdout.readline()
        if not out.startswith("END"):
            return None
        parts = out.rstrip("\n").split(" ")
        rest = " ".join(parts[4:])
        lf, _, ld = rest.partition("|")
        return {"rc": int(parts[2]), "gi": int(parts[3]), "last_file": lf, "last_dir": ld}

    def op(self, op):
        if "cid" in op:
            if self.send("cid %d" % op["cid"]) is None:
                return None
        if op["op"] in ("w", "n"):
            return self.send("%s %d %d" % (op["op"], op["idx"], op["len"]))
        k = len(op["g"])
        return self.send("b %d %d %s" % (op["len"], k, " ".join("%d %d" % (op["g"][i], op["d"][i]) for i in range(k))))

    def init(self, cfg, chdir):
        return self.send(script_lines(cfg, [], chdir)[0])

    def close(self):
        r = self.send("close")
        return r

    def finish(self):
        try:
            self.p.stdin.close()
        except Exception:
            pass
        try:
            rc = self.p.wait(timeout=60)
        except subprocess.TimeoutExpired:
            self.p.kill()
            rc = -999
        self.errf.seek(0)
        err = self.errf.read()
        self.errf.close()
        return rc, err
