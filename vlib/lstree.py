"""Generated directory trees + set-theoretic listing oracle (C14, C15, C18).

A tree description is plain JSON:

  node = {"name": str, "kind": "plain"|"rf"|"dmd"|"legacy-rf"|"legacy-dmd",
          "subdirs": [{"t": seconds, "files": [{"name": str, "ms": int}], "strays": [names]}],
          "strays": [names of files directly in the directory],
          "children": [node...]}

Data files of a channel always lie inside the window of their subdirectory (as the format guarantees).
The oracle is computed from this description, never from a directory walk, with its own name parser.
"""
from __future__ import annotations

import datetime
import os

from hypothesis import strategies as st

EPOCH = datetime.datetime(1970, 1, 1, tzinfo=datetime.timezone.utc)
T1980 = 315532800
T2100 = 4102444800

PROP_OF = {"rf": "drf_properties.h5", "dmd": "dmd_properties.h5", "legacy-rf": "metadata.h5", "legacy-dmd": "metadata.h5"}


def subdir_name(sec):
    return (datetime.datetime(1970, 1, 1) + datetime.timedelta(seconds=sec)).strftime("%Y-%m-%dT%H-%M-%S")


def rf_name(prefix, ms):
    return "%s@%d.%03d.h5" % (prefix, ms // 1000, ms % 1000)


def dmd_name(prefix, ms):
    return "%s@%d.h5" % (prefix, ms // 1000)


# ------------------------------------------------------------------ independent grammar
def parse_data_name(fn):
    """('rf'|'dmd', ms) or None - written independently of list_drf's regexes."""
    if not fn.endswith(".h5") or fn.startswith("tmp."):
        return None
    body = fn[:-3]
    at = body.rfind("@")
    while at > 0:
        name, stamp = body[:at], body[at + 1:]
        if stamp.isdigit() and stamp.isascii():
            return ("dmd", int(stamp) * 1000)
        if len(stamp) > 4 and stamp[-4] == "." and stamp[-3:].isdigit() and stamp[:-4].isdigit() and stamp.isascii():
            return ("rf", int(stamp[:-4]) * 1000 + int(stamp[-3:]))
        at = body.rfind("@", 0, at)
    return None


# ------------------------------------------------------------------ strategies
@st.composite
def channel(draw, name, kind, allow_child=True, like=None):
    data_kind = "rf" if kind in ("rf", "legacy-rf") else "dmd"
    S = draw(st.sampled_from([10, 60, 3600])) if like is None else like["S"]
    if data_kind == "rf":
        F = draw(st.sampled_from([1000, 2000, 500, S * 1000, S * 500]))
    else:
        F = draw(st.sampled_from([1, 2, 5, S, S // 2])) * 1000
    F = max(1, min(F, S * 1000))
    if (S * 1000) % F:
        F = S * 1000
    # mostly 1980-2100; sometimes the epoch itself (stamps 0, 5, 10: the number of digits changes inside a subdirectory)
    # or the subdirectory in which the stamps pass 10^9 s
    base = draw(st.one_of(st.integers(T1980 // S, T2100 // S - 50), st.integers(T1980 // S, T2100 // S - 50),
                          st.sampled_from([0, 0, 10 ** 9 // S, 10 ** 9 // S - 1, (1 << 32) // S]))) * S
    if like is not None and like["subdirs"]:
        base = like["subdirs"][0]["t"]  # recorded at the same time as the other channel: same subdirectory names
    nsub = draw(st.integers(0, 4))
    # (a prefix may begin with "tmp" - only "tmp." marks a temporary file - or hold characters special to regexes / formats)
    prefixes = [draw(st.sampled_from(["rf", "rf", "ch", "data", "tmprf", "rf+1"]))] if data_kind == "rf" \
        else [draw(st.sampled_from(["metadata", "md", "m_1", "tmp102", "duty50%%"]))]
    if draw(st.integers(0, 4)) == 0:
        prefixes.append("alt")
    subdirs = []
    idx = 0
    for _ in range(nsub):
        idx += draw(st.sampled_from([0, 1, 1, 1, 2, 5])) if subdirs else 0
        t = base + idx * S
        idx += 1
        nfiles = draw(st.sampled_from([0, 1, 2, 3, 4]))
        if data_kind == "dmd" and subdirs and draw(st.integers(0, 2)) == 0:
            nfiles = 0  # metadata channels: chains of subdirectories without finalized files (look-back has to pass them)
        slots = (S * 1000) // F
        chosen = sorted(set(draw(st.integers(0, max(0, min(slots - 1, 9)))) for _i in range(nfiles))) if nfiles else []
        if nfiles and draw(st.integers(0, 3)) == 0:
            chosen = sorted(set(chosen) | {slots - 1})  # last slot of the subdirectory
        files = []
        for sl in chosen:
            ms = t * 1000 + sl * F
            pf = draw(st.sampled_from(prefixes))
            files.append({"name": rf_name(pf, ms) if data_kind == "rf" else dmd_name(pf, ms), "ms": ms})
        strays = []
        for _s in range(draw(st.sampled_from([0, 0, 0, 1, 2] if nfiles else [0, 1, 1, 2]))):
            ms = t * 1000 + draw(st.integers(0, max(0, slots - 1))) * F
            strays.append(draw(st.sampled_from([
                "tmp." + rf_name("rf", ms), "tmp." + dmd_name("metadata", ms), "notes.txt",
                dmd_name("md", ms) if data_kind == "rf" else rf_name("rf", ms),  # file of the other kind
                "rf@%d.00.h5" % (ms // 1000), "rf@%d.000.hdf5" % (ms // 1000), "rf%d.000.h5" % (ms // 1000), "@.h5",
                # decimal digits that are not ASCII digits (fullwidth, Arabic-Indic): not part of the grammar
                "rf@%s.500.h5" % "".join(chr(0xFF10 + int(c)) for c in str(ms // 1000)),
                "metadata@%s.h5" % "".join(chr(0x0660 + int(c)) for c in str(ms // 1000)),
            ])))
        subdirs.append({"t": t, "files": files, "strays": sorted(set(strays))})
    strays = sorted(set(draw(st.lists(st.sampled_from(
        ["notes.txt", "rf@1.h5", "rf@5.000.h5", "tmp.drf_properties.h5", "md@7.h5"]), max_size=2))))
    children = []
    if allow_child and kind == "rf" and draw(st.integers(0, 2)) == 0:
        children.append(draw(channel("metadata", "dmd", allow_child=False)))
    if draw(st.integers(0, 5)) == 0:
        # a plain directory inside the channel holding data-like files (never listed: no properties file)
        children.append({"name": "extra", "kind": "plain", "subdirs": [
            {"t": base, "files": [{"name": rf_name("rf", base * 1000), "ms": base * 1000}], "strays": []}],
            "strays": [], "children": []})
    return {"name": name, "kind": kind, "S": S, "F": F, "subdirs": subdirs, "strays": strays, "children": children}


@st.composite
def trees(draw):
    nchan = draw(st.integers(1, 3))
    children = []
    names = ["ch1", "ch10", "chC", "zz"]  # ("ch1" is a character prefix of "ch10": path components, not strings, are what nests)
    for i in range(nchan):
        kind = draw(st.sampled_from(["rf", "rf", "dmd", "dmd", "legacy-rf", "legacy-dmd"]))
        prev = children[-1] if children and children[-1]["kind"] != "plain" and draw(st.integers(0, 2)) == 0 else None
        ch = draw(channel(names[i], kind, like=prev))
        if draw(st.integers(0, 3)) == 0:
            # (a grouping directory may be named like a time stamp - recordings collected under their campaign's start time;
            # only inside a CHANNEL do such names mean subdirectories of data)
            ch = {"name": "grp%d" % i if i != 1 else "2014-03-09T12-30-00", "kind": "plain", "subdirs": [], "strays": [], "children": [ch]}
        children.append(ch)
    if draw(st.integers(0, 3)) == 0:
        # data files in a directory without a properties file
        t = draw(st.integers(T1980 // 60, T2100 // 60 - 5)) * 60
        children.append({"name": "noprops", "kind": "plain", "subdirs": [
            {"t": t, "files": [{"name": rf_name("rf", t * 1000), "ms": t * 1000}], "strays": []}],
            "strays": ["readme"], "children": []})
    return {"name": "top", "kind": "plain", "subdirs": [], "strays": [], "children": children}


def all_channels(node, path=""):
    """[(relpath, node)] for every node (depth first, parents first)."""
    here = os.path.join(path, node["name"]) if path else node["name"]
    out = [(here, node)]
    for c in node["children"]:
        out.extend(all_channels(c, here))
    return out


def all_times(tree):
    ts, subs = [], []
    for _p, nd in all_channels(tree):
        for sd in nd["subdirs"]:
            subs.append(sd["t"] * 1000)
            for f in sd["files"]:
                ts.append(f["ms"])
    return sorted(set(ts)), sorted(set(subs))


@st.composite
def options(draw, tree):
    ts, subs = all_times(tree)
    inc_drf = draw(st.booleans())
    inc_dmd = draw(st.booleans()) if inc_drf else draw(st.sampled_from([True, True, False]))
    opts = {
        "include_drf": inc_drf, "include_dmd": inc_dmd,
        "include_drf_properties": draw(st.sampled_from([None, None, True, False])),
        "include_dmd_properties": draw(st.sampled_from([None, None, True, False])),
        "recursive": draw(st.sampled_from([True, True, True, False])),
        "reverse": draw(st.booleans()),
        "start": None, "end": None,
    }

    def tpoint():
        c = draw(st.integers(0, 7))
        if not ts:
            return draw(st.integers(T1980, T2100)) * 1000
        if c == 0:
            return ts[0] - 5000
        if c == 1:
            return ts[-1] + 5000
        if c == 2:
            return draw(st.sampled_from(ts))
        if c == 3:
            return draw(st.sampled_from(ts)) + draw(st.sampled_from([-1, 1]))
        if c == 4 and len(ts) > 1:
            i = draw(st.integers(0, len(ts) - 2))
            return (ts[i] + ts[i + 1]) // 2
        if c == 5 and subs:
            return draw(st.sampled_from(subs))
        if c == 6:
            return draw(st.sampled_from(ts)) + draw(st.sampled_from([-1000, 1000, 500]))
        return draw(st.sampled_from(ts))

    w = draw(st.integers(0, 3))
    if w in (1, 3):
        opts["start"] = tpoint()
    if w in (2, 3):
        opts["end"] = tpoint()
    if opts["start"] is not None and opts["end"] is not None and opts["end"] < opts["start"]:
        opts["start"], opts["end"] = opts["end"], opts["start"]
    # listing root
    chans = [(p, nd) for p, nd in all_channels(tree)]
    r = draw(st.integers(0, 5))
    root = "top"
    if r == 4:
        root = draw(st.sampled_from([p for p, nd in chans]))
    elif r == 5:
        cands = [os.path.join(p, subdir_name(sd["t"])) for p, nd in chans if nd["kind"] != "plain" for sd in nd["subdirs"]]
        if cands:
            root = draw(st.sampled_from(cands))
    opts["root"] = root
    # vanishing subdirectory
    opts["vanish"] = None
    if draw(st.integers(0, 5)) == 0:
        cands = [os.path.join(p, subdir_name(sd["t"])) for p, nd in chans if nd["kind"] != "plain" for sd in nd["subdirs"]]
        if cands:
            opts["vanish"] = draw(st.sampled_from(cands))
    # naive datetimes are documented to mean UTC (the checks run with a non-UTC local time zone)
    # window edges need not be whole milliseconds (datetimes have microseconds; "now" never is)
    opts["start_us"] = draw(st.sampled_from([0, 0, 0, 400, 999])) if opts["start"] is not None else 0
    opts["end_us"] = draw(st.sampled_from([0, 0, 0, 400])) if opts["end"] is not None else 0
    if opts["start"] is not None and opts["end"] is not None and opts["start"] == opts["end"] and opts["start_us"] > opts["end_us"]:
        opts["start_us"] = opts["end_us"]
    opts["naive"] = draw(st.booleans())
    # also ask the command line for the same listing (None: no; else the spelling of times / default flags)
    opts["cli"] = draw(st.sampled_from([None, None, "iso", "float"]))
    # the process may run with warnings turned into errors (python -W error)
    opts["werror"] = draw(st.integers(0, 3)) == 0
    return opts


# ------------------------------------------------------------------ materialise
def build(tree, base, make_file=None):
    """Create the tree under ``base`` (returns path of the top directory)."""

    def touch(p):
        if make_file:
            make_file(p)
        else:
            open(p, "wb").close()

    def rec(node, parent):
        d = os.path.join(parent, node["name"])
        os.makedirs(d, exist_ok=True)
        if node["kind"] != "plain":
            touch(os.path.join(d, PROP_OF[node["kind"]]))
        for s in node["strays"]:
            touch(os.path.join(d, s))
        for sd in node["subdirs"]:
            sdp = os.path.join(d, subdir_name(sd["t"]))
            os.makedirs(sdp, exist_ok=True)
            for f in sd["files"]:
                touch(os.path.join(sdp, f["name"]))
            for s in sd["strays"]:
                touch(os.path.join(sdp, s))
        for c in node["children"]:
            rec(c, d)

    rec(tree, base)
    return os.path.join(base, tree["name"])


def to_dt(ms):
    return None if ms is None else EPOCH + datetime.timedelta(milliseconds=ms)


# ------------------------------------------------------------------ oracle
def expected_listing(tree, opts):
    """Returns (required: {relpath}, maybe: {relpath}, per_channel: {chpath: [relpaths in ascending time order]})."""
    inc_drf, inc_dmd = opts["include_drf"], opts["include_dmd"]
    ip_drf = inc_drf if opts["include_drf_properties"] is None else opts["include_drf_properties"]
    ip_dmd = inc_dmd if opts["include_dmd_properties"] is None else opts["include_dmd_properties"]
    start, end = opts["start"], opts["end"]
    root = opts["root"]
    vanish = opts.get("vanish")
    required, maybe, per_channel = set(), set(), {}
    nodes = all_channels(tree)
    root_is_subdir = not any(p == root for p, _ in nodes)
    for path, nd in nodes:
        if nd["kind"] == "plain":
            continue
        # is this channel visited by the listing?
        only_subdir = None
        if root_is_subdir:
            if os.path.dirname(root) != path:
                continue
            only_subdir = os.path.basename(root)
        else:
            if not (path == root or path.startswith(root + os.sep)):
                continue
            if not opts["recursive"] and path != root:
                continue
        prop = PROP_OF[nd["kind"]]
        is_drf = prop in ("drf_properties.h5", "metadata.h5")
        is_dmd = prop in ("dmd_properties.h5", "metadata.h5")
        # property files (never when the root is a timestamped subdirectory)
        if only_subdir is None:
            if (ip_drf and is_drf) or (ip_dmd and is_dmd):
                required.add(os.path.join(path, prop))
        y_drf = is_drf and inc_drf
        y_dmd = is_dmd and inc_dmd
        if not (y_drf or y_dmd):
            continue
        cands = []
        for sd in nd["subdirs"]:
            sdn = subdir_name(sd["t"])
            if only_subdir is not None and sdn != only_subdir:
                continue
            if vanish == os.path.join(path, sdn):
                continue
            for fn in [f["name"] for f in sd["files"]] + list(sd["strays"]):
                pr = parse_data_name(fn)
                if pr is None:
                    continue
                kind, ms = pr
                if (kind == "rf" and y_drf) or (kind == "dmd" and y_dmd):
                    cands.append((ms, os.path.join(path, sdn, fn)))
        cands.sort()
        s_us = opts.get("start_us", 0)  # (an edge of start + 0.4 ms excludes the file stamped exactly at `start`)
        sel = [(ms, p) for ms, p in cands if (start is None or ms > start or (ms == start and not s_us)) and (end is None or ms <= end)]
        fill = None
        if y_dmd and start is not None and (start != 0 or s_us) and not any(ms == start and not s_us for ms, _ in cands):
            before = [(ms, p) for ms, p in cands if (ms < start or (ms == start and s_us)) and (end is None or ms <= end)]
            if before:
                fill = before[-1]
        chlist = list(sel)
        if fill is not None:
            if nd["kind"].startswith("legacy") or vanish is not None:
                # a legacy metadata.h5 channel may or may not be a metadata channel; with a vanishing
                # subdirectory the property only promises "does not fail", not which file fills forward
                maybe.add(fill[1])
            else:
                chlist = [fill] + chlist
        for ms, p in chlist:
            required.add(p)
        per_channel[path] = [p for _ms, p in chlist]
    return required, maybe, per_channel


def lsdrf_kwargs(opts):
    def t(ms, us=0):
        d = to_dt(ms)
        if d is not None and us:
            d += datetime.timedelta(microseconds=us)
        return d.replace(tzinfo=None) if (d is not None and opts.get("naive")) else d

    return dict(recursive=opts["recursive"], reverse=opts["reverse"], starttime=t(opts["start"], opts.get("start_us", 0)),
                endtime=t(opts["end"], opts.get("end_us", 0)),
                include_drf=opts["include_drf"], include_dmd=opts["include_dmd"],
                include_drf_properties=opts["include_drf_properties"], include_dmd_properties=opts["include_dmd_properties"])
