"""Campaign runner shared by all checks (DESIGN.md 2.2 / 2.3).

A check module provides

    PID, LEVEL, RULE, ASSUMPTIONS, TECHNIQUE
    budget(tier)            -> {"examples": int, "shards": int, ...}
    strategy(tier)          -> Hypothesis strategy of JSON-able cases
    strategy2(tier)         -> second-stage strategy, budget key "examples2" (optional; used for the multi-session
                               histories of checks/c11.py judged with this check's own clauses; counted separately
                               so that the class floors keep describing the main generator)
    run_case(case)          -> Result
    shrink_candidates(case) -> iterable of simpler cases          (optional)
    directed_cases(tier)    -> list of cases that always run first (optional)
    extra(tier, seed, camp) -> additional engines (enumeration, fuzz) (optional)
    PREDICATES              -> {name: fn(case, signature, detail) -> bool}
    FLOORS                  -> {class-name or "nontrivial": min fraction}

The runner draws cases with Hypothesis (seeded from VERIF_SEED), never lets an
oracle mismatch abort the search (collect, bucket by signature, then shrink),
matches buckets against /verif/known_findings.json, writes the evidence file
and prints VIOLATION / KNOWN-FINDING lines.
"""
from __future__ import annotations

import hashlib
import json
import os
import shutil
import subprocess
import sys
import time
import traceback

VERIF = os.path.dirname(os.path.dirname(os.path.abspath(__file__)))
# evidence / replay output root (the mutant self-test points this elsewhere so /verif stays clean)
OUT = os.environ.get("VERIF_OUT_DIR") or VERIF


class Result:
    __slots__ = ("failures", "nontrivial", "classes", "evaluations", "excluded", "nt_units")

    def __init__(self):
        self.failures = []  # list of (signature, detail)
        self.nontrivial = False
        self.classes = []
        self.evaluations = 1
        self.excluded = 0
        self.nt_units = 0  # non-trivial units inside this case (crash points, fault schedules, reader passes)

    def fail(self, sig, detail=""):
        self.failures.append((sig, str(detail)[:2000]))

    def cls(self, *names):
        for n in names:
            if n not in self.classes:
                self.classes.append(n)


class HarnessError(Exception):
    pass


def canon(case):
    return json.dumps(case, sort_keys=True, separators=(",", ":"), default=str)


def digest(case):
    return hashlib.sha1(canon(case).encode()).hexdigest()


def load_known():
    p = os.path.join(VERIF, "known_findings.json")
    if not os.path.exists(p):
        return []
    with open(p) as f:
        return json.load(f).get("findings", [])


class Campaign:
    def __init__(self, mod, tier, seed):
        self.mod = mod
        self.pid = mod.PID
        self.tier = tier
        self.seed = seed
        self.evaluations = 0
        self.cases = 0
        self.nontrivial = set()
        self.classes = {}
        self.samples = []
        self.sample_big = None
        self.buckets = {}  # sig -> (case, detail, count)
        self.excluded = 0
        self.extra_cov = {}
        self.nontrivial_extra = 0  # distinct-by-construction enumerated cases
        self.pbt_cases = 0  # cases that went through record() (floors are judged on these)
        self.unit_cases = set()
        self.stage2 = False
        self.nt2 = set()
        self.cases2 = 0
        self.t0 = time.time()

    # -- recording -----------------------------------------------------
    def record(self, case, res):
        self.cases += 1
        if self.stage2:
            self.cases2 += 1
        else:
            self.pbt_cases += 1
        self.evaluations += res.evaluations
        self.excluded += res.excluded
        for c in res.classes:
            self.classes[c] = self.classes.get(c, 0) + 1
        if res.nt_units:
            dg0 = digest(case)
            if dg0 not in self.unit_cases:
                # units of one case are distinct by construction; a case seen twice is counted once
                self.unit_cases.add(dg0)
                self.nontrivial_extra += int(res.nt_units)
        if res.nontrivial and self.stage2:
            self.nt2.add(digest(case))
        elif res.nontrivial:
            dg = digest(case)
            if dg not in self.nontrivial:
                self.nontrivial.add(dg)
                if len(self.samples) < 3:
                    self.samples.append(case)
        elif not self.samples and self.sample_big is None:
            self.sample_big = case
        for sig, detail in res.failures:
            if sig not in self.buckets:
                self.buckets[sig] = [case, detail, 1]
            else:
                self.buckets[sig][2] += 1
                # keep the smallest witness seen
                if len(canon(case)) < len(canon(self.buckets[sig][0])):
                    self.buckets[sig][0] = case
                    self.buckets[sig][1] = detail

    def run_one(self, case):
        cur = os.environ.get("VERIF_CUR_CASE_FILE")
        if cur:
            # crash attribution: if the code under test aborts / segfaults, the parent finds the case here
            with open(cur, "w") as f:
                f.write(canon(case))
        res = self.mod.run_case(case)
        self.record(case, res)
        return res

    # -- merging shard output -----------------------------------------
    def export(self):
        return {
            "evaluations": self.evaluations,
            "cases": self.cases,
            "nontrivial": sorted(self.nontrivial),
            "classes": self.classes,
            "samples": self.samples,
            "sample_big": self.sample_big,
            "buckets": {k: v for k, v in self.buckets.items()},
            "excluded": self.excluded,
            "extra_cov": self.extra_cov,
            "nontrivial_extra": self.nontrivial_extra,
            "pbt_cases": self.pbt_cases,
            "nt2": sorted(self.nt2),
            "cases2": self.cases2,
        }

    def merge(self, d):
        self.evaluations += d["evaluations"]
        self.cases += d["cases"]
        self.nontrivial.update(d["nontrivial"])
        for k, v in d["classes"].items():
            self.classes[k] = self.classes.get(k, 0) + v
        for s in d["samples"]:
            if len(self.samples) < 5:
                self.samples.append(s)
        if self.sample_big is None:
            self.sample_big = d.get("sample_big")
        for sig, (case, detail, cnt) in d["buckets"].items():
            if sig not in self.buckets:
                self.buckets[sig] = [case, detail, cnt]
            else:
                self.buckets[sig][2] += cnt
        self.excluded += d["excluded"]
        self.nontrivial_extra += d.get("nontrivial_extra", 0)
        self.pbt_cases += d.get("pbt_cases", d["cases"])
        self.nt2.update(d.get("nt2", []))
        self.cases2 += d.get("cases2", 0)
        for k, v in d.get("extra_cov", {}).items():
            if isinstance(v, (int, float)) and isinstance(self.extra_cov.get(k), (int, float)):
                self.extra_cov[k] += v
            else:
                self.extra_cov.setdefault(k, v)


# ----------------------------------------------------------------------
def _hypothesis_search(mod, camp, tier, seed, examples, stage2=False):
    import hypothesis
    from hypothesis import HealthCheck, Phase, given, settings

    strat = mod.strategy2(tier) if stage2 else mod.strategy(tier)
    if strat is None or examples <= 0:
        return

    @hypothesis.seed(seed)
    @settings(
        max_examples=examples,
        database=None,
        deadline=None,
        derandomize=False,
        report_multiple_bugs=False,
        suppress_health_check=list(HealthCheck),
        phases=[Phase.generate],
    )
    @given(strat)
    def prop(case):
        camp.run_one(case)

    prop()


def _run_isolated(mod, case):
    """run_case in a forked child: a candidate that makes the code under test abort must not take the check down.
    Returns the list of (signature, detail); a child killed by a signal yields one process-crash entry."""
    r, w = os.pipe()
    sys.stdout.flush()
    sys.stderr.flush()
    pid = os.fork()
    if pid == 0:
        code = 0
        try:
            os.close(r)
            try:
                fails = mod.run_case(case).failures
            except Exception as e:  # a candidate the check cannot run is "not failing"
                fails = [("__exception__", "%s: %s" % (type(e).__name__, e))]
            with os.fdopen(w, "w") as f:
                json.dump(fails, f, default=str)
        except BaseException:
            code = 3
        finally:
            os._exit(code)
    os.close(w)
    with os.fdopen(r) as f:
        data = f.read()
    _, status = os.waitpid(pid, 0)
    if os.WIFSIGNALED(status):
        return [("process-crash:signal%d" % os.WTERMSIG(status), "the process running this case died")]
    try:
        return [tuple(x) for x in json.loads(data)]
    except ValueError:
        return []


def _shrink(mod, case, sig, budget_s):
    """Greedy delta-debugging over the check's own candidate generator."""
    gen = getattr(mod, "shrink_candidates", None)
    if gen is None:
        return case
    t_end = time.time() + budget_s
    cur = case
    improved = True
    while improved and time.time() < t_end:
        improved = False
        try:
            cands = list(gen(cur))
        except Exception:
            # a candidate generator that cannot handle this case (e.g. a fuzz input) just means "not shrunk"
            return cur
        for cand in cands:
            if time.time() >= t_end:
                break
            if canon(cand) == canon(cur):
                continue
            if any(s == sig for s, _ in _run_isolated(mod, cand)):
                cur = cand
                improved = True
                break
    return cur


def _match_known(mod, sig, case, detail, known):
    preds = getattr(mod, "PREDICATES", {})
    for k in known:
        if k.get("property") != mod.PID and mod.PID not in k.get("properties", []):
            continue
        if k.get("status") != "open":
            continue
        ksig = k.get("signature")
        if ksig and not (sig == ksig or sig.startswith(ksig)):
            continue
        pname = k.get("predicate")
        if pname:
            fn = preds.get(pname)
            if fn is None:
                continue
            try:
                if not fn(case, sig, detail):
                    continue
            except Exception:
                continue
        return k
    return None


def write_evidence(mod, camp, violations, known_seen, wall):
    samples = list(camp.samples)
    if not samples and camp.sample_big is not None:
        samples = [camp.sample_big]
    cov = {
        "evaluations": int(camp.evaluations),
        "cases": int(camp.cases),
        "distinct_nontrivial": len(camp.nontrivial) + int(camp.nontrivial_extra) + len(camp.nt2),
        "rule": mod.RULE,
        "samples": samples[:5],
        "classes": camp.classes,
        "excluded_known": camp.excluded,
        "known_findings_seen": known_seen,
        "failure_buckets": {k: v[2] for k, v in camp.buckets.items()},
    }
    if camp.cases2:
        cov["second_stage"] = {"cases": camp.cases2, "distinct_nontrivial": len(camp.nt2),
                               "what": getattr(mod, "STAGE2", "second-stage generator")}
    cov.update(camp.extra_cov)
    ev = {
        "property_id": mod.PID,
        "tier": camp.tier,
        "seed": int(camp.seed),
        "level": mod.LEVEL,
        "coverage": cov,
        "assumptions": list(getattr(mod, "ASSUMPTIONS", [])) + [
            "the check process runs without the super-user's permission override (CAP_DAC_OVERRIDE / CAP_DAC_READ_SEARCH dropped, "
            "vlib/unpriv.py): permission bits set by a case were %s" % ("enforced" if __import__("vlib.unpriv", fromlist=["x"]).ENFORCED else "NOT enforced")],
        "wall_s": round(wall, 2),
        "violations": violations,
    }
    os.makedirs(os.path.join(OUT, "evidence"), exist_ok=True)
    p = os.path.join(OUT, "evidence", mod.PID + ".json")
    tmp = p + ".tmp%d" % os.getpid()
    with open(tmp, "w") as f:
        json.dump(ev, f, indent=1, default=str)
    os.replace(tmp, p)


def finish(mod, camp):
    """Classify buckets, shrink, print lines, write evidence; return exit code."""
    known = load_known()
    violations = 0
    known_seen = []
    shrink_budget = 40 if camp.tier == "quick" else 240
    lines = []
    for sig in sorted(camp.buckets):
        case, detail, cnt = camp.buckets[sig]
        k = _match_known(mod, sig, case, detail, known)
        if k is not None:
            if k["id"] not in known_seen:
                known_seen.append(k["id"])
                lines.append("KNOWN-FINDING: property=%s %s [%s]" % (mod.PID, k.get("what", ""), k["id"]))
            continue
        small = case if sig.startswith("process-crash") else _shrink(mod, case, sig, shrink_budget)
        if small is not case:
            for s2, d2 in _run_isolated(mod, small):
                if s2 == sig:
                    detail = d2
                    break
        # re-classify the shrunk case: it must not have drifted into a known finding
        os.makedirs(os.path.join(OUT, "replay", mod.PID), exist_ok=True)
        safe = "".join(ch if ch.isalnum() or ch in "-_." else "_" for ch in sig)[:80]
        path = os.path.join(OUT, "replay", mod.PID, "%s-%s.json" % (safe, digest(small)[:10]))
        with open(path, "w") as f:
            json.dump({"property": mod.PID, "signature": sig, "detail": detail, "case": small}, f, indent=1, default=str)
        violations += 1
        lines.append("VIOLATION property=%s replay=%s" % (mod.PID, path))
        lines.append("  signature=%s count=%d detail=%s" % (sig, cnt, detail[:400]))
    wall = time.time() - camp.t0
    floors = getattr(mod, "FLOORS", {})
    if camp.pbt_cases > 0 and floors:
        camp.extra_cov["floors"] = {
            name: {"required": frac, "measured": round((len(camp.nontrivial) if name == "nontrivial" else camp.classes.get(name, 0)) / float(camp.pbt_cases), 3)}
            for name, frac in floors.items()}
    write_evidence(mod, camp, violations, known_seen, wall)
    for ln in lines:
        print(ln)
    # floors: a generator that stopped producing the interesting shape is a harness error
    floors = getattr(mod, "FLOORS", {})
    floor_fail = []
    if camp.pbt_cases > 0:
        for name, frac in floors.items():
            if name == "nontrivial":
                got = len(camp.nontrivial) / float(camp.pbt_cases)
            else:
                got = camp.classes.get(name, 0) / float(camp.pbt_cases)
            if got < frac:
                floor_fail.append("%s=%.3f<%.3f" % (name, got, frac))
    print(
        "%s tier=%s seed=%d cases=%d evaluations=%d nontrivial=%d buckets=%d violations=%d known=%s wall=%.1fs"
        % (mod.PID, camp.tier, camp.seed, camp.cases, camp.evaluations, len(camp.nontrivial),
           len(camp.buckets), violations, known_seen, wall)
    )
    if violations:
        return 1
    if floor_fail:
        # the distribution of this run missed a self-imposed floor: reported (and in the evidence); it only fails the
        # run in strict mode (development), because a statistical shortfall on one seed is not a verdict about the code
        print("WARNING %s generator floors not met on this seed: %s" % (mod.PID, ", ".join(floor_fail)))
        if os.environ.get("VERIF_STRICT_FLOORS") == "1":
            print("HARNESS-ERROR %s generator floors not met (strict mode)" % mod.PID)
            return 2
    return 0


def replay(mod, path):
    """Replay in a child process so that a crash of the code under test is reported, not suffered."""
    r = subprocess.run([sys.executable, os.path.join(VERIF, "check"), mod.PID, "--replay-inproc", path])
    if r.returncode < 0 or r.returncode > 2:
        print("VIOLATION property=%s replay=%s" % (mod.PID, path))
        print("  signature=process-crash detail=the process replaying the case died with status %d" % r.returncode)
        return 1
    return r.returncode


def replay_inproc(mod, path):
    with open(path) as f:
        obj = json.load(f)
    case = obj["case"] if isinstance(obj, dict) and "case" in obj else obj
    res = mod.run_case(case)
    known = load_known()
    rc = 0
    if not res.failures:
        print("%s replay %s: no failure" % (mod.PID, path))
    for sig, detail in res.failures:
        k = _match_known(mod, sig, case, detail, known)
        if k is not None:
            print("KNOWN-FINDING: property=%s %s [%s]" % (mod.PID, k.get("what", ""), k["id"]))
        else:
            print("VIOLATION property=%s replay=%s" % (mod.PID, path))
            print("  signature=%s detail=%s" % (sig, detail[:600]))
            rc = 1
    return rc


def main(mod, argv):
    # the check runs as the software's users do: without the super-user's permission override (see vlib/unpriv.py)
    from . import unpriv
    unpriv.drop()
    tier = os.environ.get("VERIF_TIER", "quick")
    seed = int(os.environ.get("VERIF_SEED", "1") or "1")
    shard = None
    out = None
    directed = False
    args = list(argv)
    while args:
        a = args.pop(0)
        if a in ("quick", "thorough"):
            tier = a
        elif a == "--replay":
            return replay(mod, args.pop(0))
        elif a == "--replay-inproc":
            return replay_inproc(mod, args.pop(0))
        elif a == "--directed":
            directed = True
        elif a == "--shard":
            shard = int(args.pop(0))
        elif a == "--out":
            out = args.pop(0)
        elif a == "--seed":
            seed = int(args.pop(0))
    camp = Campaign(mod, tier, seed)
    b = dict(mod.budget(tier))
    for key in ("examples", "examples2"):  # development aid: override the case counts
        if os.environ.get("VERIF_" + key.upper()):
            b[key] = int(os.environ["VERIF_" + key.upper()])
    try:
        if shard is not None:
            # worker process: corpus + directed cases (first worker only), then one shard of the search
            if directed:
                for case in _corpus(mod) + list(getattr(mod, "directed_cases", lambda t: [])(tier)):
                    camp.run_one(case)
            _hypothesis_search(mod, camp, tier, seed * 1000 + shard if b.get("shards", 1) > 1 else seed, b["examples"])
            if b.get("examples2") and hasattr(mod, "strategy2"):
                camp.stage2 = True
                _hypothesis_search(mod, camp, tier, (seed * 1000 + shard if b.get("shards", 1) > 1 else seed) + 500009, b["examples2"], stage2=True)
                camp.stage2 = False
            ex = getattr(mod, "extra_shard", None)
            if ex:
                ex(tier, seed, shard, b.get("shards", 1), camp)
            with open(out, "w") as f:
                json.dump(camp.export(), f, default=str)
            return 0
        # every case runs in a worker process: the code under test is a C extension, and an assert() / segfault in
        # it must become a reported failure of that case, not the death of the check
        _run_shards(mod, camp, tier, seed, max(1, b.get("shards", 1)))
        ex = getattr(mod, "extra", None)
        if ex:
            ex(tier, seed, camp)
        return finish(mod, camp)
    except HarnessError as e:
        print("HARNESS-ERROR %s %s" % (mod.PID, e))
        return 2
    except Exception:
        traceback.print_exc()
        print("HARNESS-ERROR %s unexpected exception in harness" % mod.PID)
        return 2


def _corpus(mod):
    d = os.path.join(VERIF, "corpus", mod.PID)
    out = []
    if os.path.isdir(d):
        for fn in sorted(os.listdir(d)):
            if fn.endswith(".json"):
                with open(os.path.join(d, fn)) as f:
                    obj = json.load(f)
                out.append(obj["case"] if isinstance(obj, dict) and "case" in obj else obj)
    return out


def _run_shards(mod, camp, tier, seed, shards):
    tmpd = os.path.join(VERIF, ".build", "shards", "%s-%d" % (mod.PID, os.getpid()))
    os.makedirs(tmpd, exist_ok=True)
    env = dict(os.environ)
    env["VERIF_TIER"] = tier
    maxpar = int(os.environ.get("VERIF_JOBS", "16"))
    pending = [(i, 0) for i in range(shards)]  # (shard, attempt)
    running = []
    errs = []
    while pending or running:
        while pending and len(running) < maxpar:
            i, attempt = pending.pop(0)
            out = os.path.join(tmpd, "shard%d.json" % i)
            cur = os.path.join(tmpd, "cur%d.json" % i)
            for f in (out, cur):
                if os.path.exists(f):
                    os.unlink(f)
            e2 = dict(env, VERIF_CUR_CASE_FILE=cur)
            cmd = [sys.executable, os.path.join(VERIF, "check"), mod.PID, tier, "--seed", str(seed + 7919 * attempt),
                   "--shard", str(i), "--out", out]
            if i == 0 and attempt == 0:
                cmd.append("--directed")
            # output goes to a file: a worker that prints a lot must never block on a full pipe
            logf = open(os.path.join(tmpd, "log%d.txt" % i), "w")
            p = subprocess.Popen(cmd, env=e2, stdout=logf, stderr=subprocess.STDOUT)
            p._verif_log = logf
            running.append((i, attempt, p, out, cur))
        time.sleep(0.1)
        for ent in list(running):
            i, attempt, p, out, cur = ent
            if p.poll() is None:
                continue
            running.remove(ent)
            p._verif_log.close()
            try:
                with open(p._verif_log.name, errors="replace") as f:
                    txt = f.read()[-20000:]
            except OSError:
                txt = ""
            if p.returncode == 0 and os.path.exists(out):
                with open(out) as f:
                    camp.merge(json.load(f))
                os.unlink(out)
                continue
            if (p.returncode < 0 or p.returncode in (134, 139)) and os.path.exists(cur):
                # the worker was killed by a signal (abort / segfault in the code under test): that case failed
                try:
                    with open(cur) as f:
                        case = json.loads(f.read())
                except Exception:
                    case = None
                if case is not None:
                    r = Result()
                    r.fail("process-crash:signal%d" % abs(p.returncode if p.returncode < 0 else p.returncode - 128),
                           "the process running this case died (status %d); last output: %s" % (p.returncode, txt[-400:]))
                    camp.record(case, r)
                    if attempt < 2:
                        pending.append((i, attempt + 1))  # keep exploring with another seed
                    continue
            errs.append("shard %d rc=%s\n%s" % (i, p.returncode, txt[-3000:]))
    shutil.rmtree(tmpd, ignore_errors=True)
    if errs:
        raise HarnessError("shard failures:\n" + "\n".join(errs))
