"""Controller for the LD_PRELOAD interposer (csrc/fsx_interpose.c): trace / pause / kill / fail."""
from __future__ import annotations

import json
import os
import subprocess
import sys

from . import build, rfharness

VERIF = os.path.dirname(os.path.dirname(os.path.abspath(__file__)))


def _cmd(writer, cfg, ops, chdir, workdir, ovl):
    lp = os.path.join(workdir, "log.txt")
    if os.path.exists(lp):
        os.unlink(lp)
    if writer == "c":
        sp = os.path.join(workdir, "script.txt")
        with open(sp, "w") as f:
            f.write("\n".join(rfharness.script_lines(cfg, ops, chdir)) + "\n")
        return [os.path.join(ovl, "bin", "drf_driver"), sp, lp], lp
    cp = os.path.join(workdir, "case.json")
    with open(cp, "w") as f:
        json.dump({"cfg": cfg, "ops": ops}, f)
    return [sys.executable, os.path.join(VERIF, "tools", "py_writer_proc.py"), ovl, cp, chdir, lp], lp


def _env(ovl, root, lp, extra=None):
    env = dict(os.environ)
    env["LD_PRELOAD"] = os.path.join(ovl, "bin", "fsx_interpose.so")
    env["FSX_ROOT"] = root
    env["FSX_LOG"] = lp
    env["PYTHONWARNINGS"] = "ignore"
    for k in ("FSX_FAIL_AT", "FSX_KILL_AT", "FSX_ERRNO", "FSX_PERSIST", "FSX_FIFO_OUT", "FSX_FIFO_IN"):
        env.pop(k, None)
    if extra:
        env.update(extra)
    return env


def run(writer, cfg, ops, root, chdir, workdir, extra_env=None, timeout=120):
    """Run to completion (trace / fail / kill modes).  Returns (returncode, events, stderr)."""
    ovl = build.ensure(want=("py", "driver", "fsx"))
    os.makedirs(chdir, exist_ok=True)
    cmd, lp = _cmd(writer, cfg, ops, chdir, workdir, ovl)
    try:
        p = subprocess.run(cmd, env=_env(ovl, root, lp, extra_env), stdout=subprocess.DEVNULL, stderr=subprocess.PIPE, timeout=timeout,
                           cwd=(extra_env or {}).get("VERIF_PROC_CWD"))
        rc, err = p.returncode, p.stderr.decode(errors="replace")
    except subprocess.TimeoutExpired:
        from .campaign import HarnessError
        raise HarnessError("writer under the interposer did not finish within %d s (machine overloaded?)" % timeout)
    return rc, rfharness.parse_log(lp), err


def run_paused(writer, cfg, ops, root, chdir, workdir, on_point, timeout=600, extra_env=None):
    """Run with the writer blocked before every counted operation.

    on_point(k, name, what) is called while the writer is blocked (the tree is exactly what a kill at that
    instant would leave); it returns 'c' to continue or 'k' to have the process kill itself.
    Returns (returncode, events, number_of_points)."""
    ovl = build.ensure(want=("py", "driver", "fsx"))
    os.makedirs(chdir, exist_ok=True)
    cmd, lp = _cmd(writer, cfg, ops, chdir, workdir, ovl)
    fo = os.path.join(workdir, "fifo_out")
    fi = os.path.join(workdir, "fifo_in")
    for f in (fo, fi):
        if os.path.exists(f):
            os.unlink(f)
        os.mkfifo(f)
    p = subprocess.Popen(cmd, env=_env(ovl, root, lp, dict(extra_env or {}, FSX_FIFO_OUT=fo, FSX_FIFO_IN=fi)),
                         stdout=subprocess.DEVNULL, stderr=subprocess.DEVNULL, cwd=(extra_env or {}).get("VERIF_PROC_CWD"))
    npoints = 0
    try:
        rfd = os.open(fo, os.O_RDONLY)
        wfd = os.open(fi, os.O_WRONLY)
        buf = b""
        while True:
            chunk = os.read(rfd, 4096)
            if not chunk:
                break
            buf += chunk
            while b"\n" in buf:
                line, buf = buf.split(b"\n", 1)
                parts = line.decode(errors="replace").split(" ", 3)
                if parts[0] != "PRE":
                    continue
                npoints += 1
                ans = on_point(int(parts[1]), parts[2], parts[3] if len(parts) > 3 else "")
                try:
                    os.write(wfd, b"k" if ans == "k" else b"c")
                except BrokenPipeError:
                    break
        os.close(rfd)
        os.close(wfd)
    finally:
        try:
            rc = p.wait(timeout=timeout)
        except subprocess.TimeoutExpired:
            p.kill()
            from .campaign import HarnessError
            raise HarnessError("paused writer did not exit within %d s" % timeout)
    return rc, rfharness.parse_log(lp), npoints
