"""Digital Metadata helpers: tagged JSON values, documented normalisation, model, strategies (C12, C13, C20)."""
from __future__ import annotations

import datetime
import math
import os

import numpy as np
from hypothesis import strategies as st

from . import rfmodel

T1980 = 315532800
T2100 = 4102444800


# ------------------------------------------------------------------ tagged values
def decode(t):
    """tagged JSON -> Python object handed to the writer."""
    k = t["t"]
    if k == "int":
        return int(t["v"])
    if k == "float":
        return _f(t["v"])
    if k == "bool":
        return bool(t["v"])
    if k == "str":
        return t["v"]
    if k == "none":
        return None
    if k == "np":
        if t["dtype"] == "bool":
            return np.bool_(t["v"])
        if t["dtype"].startswith("c"):
            return np.dtype(t["dtype"]).type(complex(_f(t["v"][0]), _f(t["v"][1])))
        return np.dtype(t["dtype"]).type(_f(t["v"]) if t["dtype"].startswith("f") else int(t["v"]))
    if k == "arr":
        flat = [_f(x) if t["dtype"].startswith("f") else int(x) for x in t["v"]]
        return np.array(flat, dtype=t["dtype"]).reshape(t["shape"])
    if k == "strarr":
        return np.array(t["v"], dtype=object)
    if k == "list":
        return [decode(x) for x in t["v"]]
    if k == "dict":
        return {kk: decode(vv) for kk, vv in t["v"].items()}
    raise ValueError(k)


def _f(v):
    if isinstance(v, str):
        return float(v)
    return float(v)


def normalise(t):
    """tagged JSON -> the value the reader documents it returns (numpy scalar -> Python scalar,
    bytes -> str, object arrays -> lists, None -> '')."""
    k = t["t"]
    if k in ("int", "float", "bool", "str"):
        return decode(t)
    if k == "none":
        return ""
    if k == "np":
        return decode(t).item()
    if k == "arr":
        return decode(t)
    if k == "strarr":
        return list(t["v"])
    if k == "dict":
        return {kk: normalise(vv) for kk, vv in t["v"].items()}
    raise ValueError(k)


def values_equal(exp, got):
    if isinstance(exp, dict):
        if not isinstance(got, dict) or set(exp) != set(got):
            return False
        return all(values_equal(exp[k], got[k]) for k in exp)
    if isinstance(exp, np.ndarray):
        if not isinstance(got, np.ndarray) or got.shape != exp.shape:
            return False
        if got.dtype.newbyteorder("<") != exp.dtype.newbyteorder("<"):
            return False
        return bool(np.array_equal(exp, got, equal_nan=exp.dtype.kind in "fc"))
    if isinstance(exp, list):
        return isinstance(got, list) and len(exp) == len(got) and all(values_equal(a, b) for a, b in zip(exp, got))
    if isinstance(exp, bool):
        return isinstance(got, (bool, np.bool_)) and bool(got) == exp
    if isinstance(exp, float):
        if isinstance(got, bool) or not isinstance(got, (float, np.floating)):
            return False
        return (math.isnan(exp) and math.isnan(got)) or exp == got
    if isinstance(exp, complex):
        return isinstance(got, (complex, np.complexfloating)) and (exp == got or (exp != exp and got != got))
    if isinstance(exp, int):
        return not isinstance(got, bool) and isinstance(got, (int, np.integer)) and int(got) == exp
    if isinstance(exp, str):
        return isinstance(got, str) and got == exp
    return exp == got


# ------------------------------------------------------------------ value strategies
NP_INTS = ["int8", "int16", "int32", "int64", "uint8", "uint16", "uint32", "uint64"]
TEXT = st.text(alphabet=st.characters(blacklist_categories=("Cs",), blacklist_characters="\x00"), max_size=12)


def _fl():
    return st.one_of(st.floats(allow_nan=False, allow_infinity=True, width=64),
                     st.sampled_from([0.0, -0.0, 1.5, float("inf")])).map(lambda x: repr(float(x)))


@st.composite
def scalar_values(draw):
    c = draw(st.integers(0, 9))
    if c == 0:
        return {"t": "int", "v": draw(st.integers(-(2 ** 62), 2 ** 62))}
    if c == 1:
        return {"t": "float", "v": draw(st.one_of(_fl(), st.just("nan")))}
    if c == 2:
        return {"t": "bool", "v": draw(st.booleans())}
    if c in (3, 4):
        return {"t": "str", "v": draw(TEXT)}
    if c == 5:
        return {"t": "none"}
    if c == 6:
        dt = draw(st.sampled_from(NP_INTS))
        ii = np.iinfo(dt)
        return {"t": "np", "dtype": dt, "v": draw(st.sampled_from([int(ii.min), int(ii.max), 0, 1]))}
    if c == 7:
        dt = draw(st.sampled_from(["float32", "float64"]))
        v = draw(st.floats(width=32, allow_nan=False))
        return {"t": "np", "dtype": dt, "v": repr(float(v))}
    if c == 8:
        return {"t": "np", "dtype": "bool", "v": draw(st.booleans())}
    return {"t": "np", "dtype": draw(st.sampled_from(["complex64", "complex128"])),
            "v": [repr(float(draw(st.floats(width=32, allow_nan=False, allow_infinity=False)))),
                  repr(float(draw(st.floats(width=32, allow_nan=False, allow_infinity=False))))]}


@st.composite
def array_values(draw, first_dim=None, forbid_first_dim=None):
    dt = draw(st.sampled_from(["int16", "int64", "uint8", "float32", "float64", "uint64"]))
    nd = draw(st.integers(1, 2))
    shape = [draw(st.integers(1, 4)) for _ in range(nd)]
    if first_dim is not None:
        shape[0] = first_dim
    if forbid_first_dim is not None and shape[0] == forbid_first_dim:
        shape[0] = forbid_first_dim + 1
    n = int(np.prod(shape))
    if dt.startswith("f"):
        v = [repr(float(draw(st.floats(width=32, allow_nan=True)))) for _ in range(n)]
    else:
        ii = np.iinfo(dt)
        v = [draw(st.integers(int(ii.min), int(ii.max))) for _ in range(n)]
    return {"t": "arr", "dtype": dt, "shape": shape, "v": v}


@st.composite
def leaf_values(draw, forbid_len=None):
    """A leaf value that the dict-form rule will *replicate* for N == forbid_len samples."""
    c = draw(st.integers(0, 9))
    if c < 6:
        return draw(scalar_values())
    if c < 9:
        return draw(array_values(forbid_first_dim=forbid_len))
    n = draw(st.integers(1, 3))
    if forbid_len is not None and n == forbid_len:
        n += 1
    return {"t": "strarr", "v": [draw(TEXT) for _ in range(n)]}


# ------------------------------------------------------------------ placement model
def exact_file_ts(k, n, d, C):
    return ((k * d) // n) // C * C


def exact_path(k, n, d, C, S, prefix):
    T = exact_file_ts(k, n, d, C)
    sub = T // S * S
    dn = (datetime.datetime(1970, 1, 1) + datetime.timedelta(seconds=sub)).strftime("%Y-%m-%dT%H-%M-%S")
    return "%s/%s@%d.h5" % (dn, prefix, T)


def boundary_index(j, n, d, C):
    """first sample index of file number j: ceil(j*C*n/d)."""
    return rfmodel.ceil_div(j * C * n, d)


def float_file_ts(k, n, d, C):
    """What the float-based writer computed (to describe known finding F5)."""
    sps = np.longdouble(np.uint64(n)) / np.longdouble(np.uint64(d))
    return int(np.uint64(np.uint64(k) / (C * sps))) * C


MD_RATES = [(1, 1), (100, 1), (200, 3), (1000000, 3), (1000000, 1), (100000000, 7), (30000000, 1001),
            (4294967295, 1000003), (1, 10), (10, 3), (999983, 1000), (44100, 1), (125, 2),
            # numerators above 2^32 (the metadata format stores them as 64-bit integers): k*d exceeds 2^64
            (20000000000, 1001), (2 ** 33 + 1, 30), (10 ** 12, 10 ** 6 + 3)]


@st.composite
def md_params(draw):
    if draw(st.integers(0, 9)) < 7:
        n, d = draw(st.sampled_from(MD_RATES))
    else:
        n = draw(st.integers(1, 2 ** 32 - 1))
        d = draw(st.integers(1, 10 ** 9))
        if n * 3600 < d:
            d = max(1, n * draw(st.integers(1, 3600)))
        while (T2100 * n) // d >= 1 << 62:
            n = max(1, n // 7)
    C = draw(st.sampled_from([1, 1, 2, 5, 10, 60, 3600]))
    S = C * draw(st.sampled_from([1, 2, 3, 10, 60]))
    return {"n": n, "d": d, "C": C, "S": S,
            # file-name prefixes: the usual ones, and legal ones that resemble other things ("tmp102" is not a tmp. file,
            # "duty50%%" is not a format string, "x.y" has a dot)
            # "station 7 " ends in a blank and " lead" begins with one (attribute strings must not be trimmed); ASCII only: the writer stores the prefix as an ASCII attribute and rejects anything else
            "prefix": draw(st.sampled_from(["metadata", "md", "x_y", "metadata", "md", "tmp102", "duty50%%", "x.y", "a-b", "station 7 ", " lead"])),
            # how the integer parameters are handed to the writer: Python ints, integer-valued floats (10e6 is a usual way
            # of spelling a rate; accepted by the documented "must be an integer value" test), numpy integers
            "ptype": draw(st.sampled_from(["int", "int", "float", "np"]))}


def as_ptype(v, ptype):
    import numpy as np
    if ptype == "float" and float(v) == v and v < 2 ** 53:
        return float(v)
    if ptype == "np":
        return np.uint64(v) if v % 2 else np.int64(v)
    return v


def open_writer(md, S, C, n, d, prefix, ptype="int"):
    from . import rfharness
    return rfharness.drf().DigitalMetadataWriter(md, as_ptype(S, ptype), as_ptype(C, ptype), as_ptype(n, ptype), as_ptype(d, ptype), prefix)


def find_files(root):
    out = []
    for dp, dn, fn in os.walk(root):
        for f in fn:
            out.append(os.path.relpath(os.path.join(dp, f), root))
    return sorted(out)
