"""Run the check as an ordinary user does: without the super-user's permission override.

The software's users are not root.  For root the kernel skips every file-permission test (CAP_DAC_OVERRIDE,
CAP_DAC_READ_SEARCH), so code that asks "may I read this?" where it means "does this exist?" behaves differently for
root and for everybody else - and a check that runs as root can never see the difference.  drop() removes the two
capabilities from this process (effective, permitted, inheritable and the bounding set, so children started with exec
do not regain them) while the uid stays 0: everything the check owns stays accessible, and permission bits that the
check sets with chmod are enforced as they are for an ordinary owner.

State: ENFORCED is True when permission bits apply to this process (capabilities dropped, or not root to begin with).
Cases that restrict permissions are generated either way and skip the restriction when it would not be enforced (the
evidence counts them under "permissions-not-enforced").
"""
import ctypes
import os

ENFORCED = False
_CAPS = (1, 2)  # CAP_DAC_OVERRIDE, CAP_DAC_READ_SEARCH
_PR_CAPBSET_DROP = 24


def _probe():
    """Are permission bits enforced for this process?  (an owner-unreadable file cannot be opened)"""
    import tempfile
    fd, p = tempfile.mkstemp(prefix="verif-perm-")
    try:
        os.close(fd)
        os.chmod(p, 0o200)
        try:
            open(p, "rb").close()
            return False
        except PermissionError:
            return True
    finally:
        os.unlink(p)


def drop():
    global ENFORCED
    if os.environ.get("VERIF_KEEP_PRIVILEGE") == "1":
        ENFORCED = _probe()
        return ENFORCED
    try:
        libc = ctypes.CDLL(None, use_errno=True)
        for c in _CAPS:
            libc.prctl(_PR_CAPBSET_DROP, c, 0, 0, 0)
        hdr = (ctypes.c_uint32 * 2)(0x20080522, 0)  # _LINUX_CAPABILITY_VERSION_3, this process
        data = (ctypes.c_uint32 * 6)()
        if libc.capget(hdr, data) == 0:
            mask = 0xFFFFFFFF
            for c in _CAPS:
                mask &= ~(1 << c)
            for i in (0, 1, 2):  # effective, permitted, inheritable of the low 32 capabilities
                data[i] &= mask
            libc.capset(hdr, data)
    except Exception:
        pass
    ENFORCED = _probe()
    return ENFORCED
