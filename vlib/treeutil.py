"""Byte-level tree snapshots (DESIGN.md 2.2): lstat only, symlinks recorded as (link, target), never followed."""
from __future__ import annotations

import hashlib
import os
import stat


def snapshot(root, mtime=False, content=True):
    """relpath -> tuple describing the entry.  Directories are included (kind 'd')."""
    out = {}
    for dirpath, dirnames, filenames in os.walk(root, followlinks=False):
        dirnames.sort()
        for name in sorted(dirnames + filenames):
            p = os.path.join(dirpath, name)
            rel = os.path.relpath(p, root)
            try:
                st = os.lstat(p)
            except FileNotFoundError:
                continue
            if stat.S_ISLNK(st.st_mode):
                out[rel] = ("l", os.readlink(p))
            elif stat.S_ISDIR(st.st_mode):
                out[rel] = ("d",) + ((st.st_mtime_ns,) if mtime else ())
            else:
                h = ""
                if content:
                    hh = hashlib.sha256()
                    try:
                        with open(p, "rb") as f:
                            for blk in iter(lambda: f.read(1 << 20), b""):
                                hh.update(blk)
                        h = hh.hexdigest()
                    except OSError as e:
                        h = "unreadable:%s" % e.errno
                out[rel] = ("f", st.st_size, h) + ((st.st_mtime_ns,) if mtime else ())
    return out


def diff(a, b, limit=6):
    """Human-readable differences between two snapshots (empty list when equal)."""
    out = []
    for k in sorted(set(a) | set(b)):
        if a.get(k) != b.get(k):
            if k not in a:
                out.append("+ %s %r" % (k, b[k][:2]))
            elif k not in b:
                out.append("- %s %r" % (k, a[k][:2]))
            else:
                out.append("~ %s %r -> %r" % (k, a[k][:3], b[k][:3]))
            if len(out) >= limit:
                break
    return out
