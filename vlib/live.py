"""Helpers for the checks that run the REAL observer threads of mirror / ringbuffer / DirWatcher (DESIGN.md 8.9).

A live scenario acts on the file system and then has to wait for threads that the harness does not schedule.  Verdicts
are never taken from a timeout alone: if the expected state has not been reached after the first wait, a *sentinel* file
is created and waited for; only if the sentinel's event has demonstrably gone through the pipeline while earlier files are
still missing is that reported.  If the sentinel does not arrive either, the scenario is inconclusive (machine too busy) and
nothing is reported."""
from __future__ import annotations

import os
import shutil
import time


def wait_for(pred, timeout, step=0.05):
    t0 = time.time()
    while time.time() - t0 < timeout:
        if pred():
            return True
        time.sleep(step)
    return pred()


def publish(src_file, final_path):
    """Make a file appear the way the RF writer publishes one: complete under a tmp. name, then renamed."""
    os.makedirs(os.path.dirname(final_path), exist_ok=True)
    tmp = os.path.join(os.path.dirname(final_path), "tmp." + os.path.basename(final_path))
    shutil.copyfile(src_file, tmp)
    os.rename(tmp, final_path)


def files_under(root):
    out = {}
    for dp, dn, fn in os.walk(root):
        for f in fn:
            p = os.path.join(dp, f)
            out[os.path.relpath(p, root)] = p
    return out


def same_bytes(a, b):
    try:
        with open(a, "rb") as fa, open(b, "rb") as fb:
            return fa.read() == fb.read()
    except OSError:
        return False
