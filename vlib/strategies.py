"""Hypothesis strategies shared by the RF-channel checks (DESIGN.md section 3)."""
from __future__ import annotations

from hypothesis import strategies as st

from . import rfmodel

T1980 = 315532800
T2100 = 4102444800

NAMED_RATES = [
    (1, 1), (100, 1), (200, 3), (44100, 1), (1000000, 1), (1000000, 3), (100000000, 7),
    (30000000, 1001), (4294967295, 1000003), (1, 10), (1000, 1), (48000, 1), (125, 2), (999983, 1000),
    (10, 3), (1001, 7),
]
CADENCES = [1, 2, 5, 10, 40, 100, 250, 400, 1000, 2000, 60000, 3600000]


def _spf(n, d, F):
    return rfmodel.ceil_div(F * n, 1000 * d)


HIGH_RATES = [(25000000, 1), (10000000, 1), (100000000, 1), (20000000, 1)]


@st.composite
def rates(draw, allow_high=False):
    if draw(st.integers(0, 9)) < 7:
        if allow_high and draw(st.integers(0, 7)) == 0:
            # start indices above 2^53 (not representable in a double); files are >= 10^4 samples even at 1 ms
            return draw(st.sampled_from(HIGH_RATES))
        return draw(st.sampled_from(NAMED_RATES))
    n = draw(st.one_of(st.integers(1, 2000), st.integers(1, (1 << 32) - 1)))
    d = draw(st.one_of(st.integers(1, 50), st.integers(1, 10 ** 9)))
    # at least one sample per hour, so that a file cadence of <= 1 h can hold a sample in every file
    if n * 3600 < d:
        d = max(1, n * draw(st.integers(1, 3600)))
    # n*d < 2^64 and the year-2100 index must stay below 2^63
    while n * d >= 1 << 64 or (T2100 * n) // d >= 1 << 62:
        if d > 1:
            d = max(1, d // 7)
        else:
            n = max(1, n // 7)
        if n * d < 1 << 64 and (T2100 * n) // d < 1 << 62:
            break
    return (n, d)


@st.composite
def rf_configs(draw, spf_cap=4096, boundary_p=0.6, force=None):
    force_big = spf_cap >= 2048 and draw(st.integers(0, 7)) == 0
    if force_big:
        # class "index above 2^53 and not representable as a double" (any float64 detour corrupts it)
        n, d = draw(st.sampled_from(HIGH_RATES))
    else:
        n, d = draw(rates(allow_high=spf_cap >= 2048))
    if not force_big and spf_cap < 2048 and _spf(n, d, 1) > 8 * spf_cap:
        # even 1 ms files would be far above the cap: checks that look at every sample at every crash point / fault
        # use a moderate rate instead (large files are covered by the checks with spf_cap >= 2048)
        n, d = draw(st.sampled_from([(1, 1), (100, 1), (200, 3), (44100, 1), (1000, 1), (125, 2), (10, 3), (1001, 7), (48000, 1)]))
    if not force_big and _spf(n, d, 1) > 100000:
        # above 100 MHz even 1 ms files hold more than 10^5 samples: such cases cost seconds each and add nothing that the
        # 10-100 MHz rates do not exercise
        n, d = draw(st.sampled_from(HIGH_RATES))
    # file cadence: at least one sample in *every* file  <=> F*n >= 1000*d ; cap samples per file
    # (one case in eight may use a cadence with LESS than one sample per file period: most periods then have no file)
    slow_ok = draw(st.integers(0, 7)) == 0
    cands = [F for F in CADENCES if (F * n >= 1000 * d or (slow_ok and F * n * 50 >= 1000 * d)) and _spf(n, d, F) <= spf_cap]
    if not cands:
        # derive a cadence that gives a handful of samples per file
        want = draw(st.integers(1, 64))
        F = max(1, rfmodel.ceil_div(want * 1000 * d, n))
        if F * n < 1000 * d:
            F = rfmodel.ceil_div(1000 * d, n)
        cands = [F]
    F = draw(st.sampled_from(cands))
    m = draw(st.sampled_from([1, 2, 3, 5, 10, 60]))
    if (F * m) % 1000 == 0:
        S = F * m // 1000
    else:
        S = F * m
    if S * 1000 % F != 0 or S < 1:
        S = F
    kind = draw(st.sampled_from(["i", "i", "u", "f"]))
    size = draw(st.sampled_from([1, 2, 4, 8])) if kind != "f" else draw(st.sampled_from([4, 8]))
    order = draw(st.sampled_from(["<", "<", ">"]))
    if size == 1:
        order = "<"  # numpy reports '|' for one-byte types; the writer maps that to little endian
    cplx = draw(st.integers(0, 1))
    form = draw(st.sampled_from(["struct", "native", "interleaved"]))
    nsub = draw(st.sampled_from([1, 1, 1, 2, 2, 3, 4, 8, 32]))
    cont = draw(st.integers(0, 1))
    comp = draw(st.sampled_from([0, 0, 0, 0, 0, 0, 0, 1, 6, 9, 2, 3, 4, 5, 7, 8]))
    checksum = draw(st.sampled_from([0, 0, 0, 1]))
    cfg = {
        "kind": kind, "size": size, "order": order, "cplx": cplx, "form": form, "nsub": nsub,
        "n": n, "d": d, "F": F, "S": S, "cont": cont, "comp": comp, "checksum": checksum,
        # bits 40-42: value mode (mostly pseudo-random; sometimes all zeros, a constant, the fill pattern itself, a ramp)
        "salt": draw(st.integers(0, (1 << 32) - 1)) | (draw(st.sampled_from([0, 0, 0, 0, 0, 0, 1, 2, 3, 4])) << 40), "uuid": "verif",
    }
    cfg["callconv"] = draw(st.sampled_from(list(range(16))))  # see rfharness.open_py_writer
    u_ = draw(st.integers(0, 11))
    if u_ == 0:
        cfg["uuid"] = "urn:uuid:" + "0123456789abcdef" * 19  # a long session identifier (313 characters)
    elif u_ == 1:
        cfg["uuid"] = "6ba7b810-9dad-11d1-80b4-00c04fd430c8"
    elif u_ == 2:
        cfg["uuid"] = ""  # an empty session identifier is a string like any other
    elif u_ == 3:
        cfg["uuid"] = "x"
    if _spf(n, d, F) > 8192:
        # very large files: keep one narrow real subchannel so that a case stays below a few MB
        cfg["nsub"] = 1
        cfg["cplx"] = 0
        cfg["size"] = 4 if kind == "f" else min(size, 2)
    if F * n < 1000 * d:
        # less than one sample per file period: the library derives a chunk size of 0 samples from it and cannot create a
        # chunked data set at all (observed: H5Pset_chunk "all chunk dimensions must be positive", the write then fails) -
        # no listed property is about that, so such cadences are generated for the unchunked layout only
        cfg.update({"cont": 1, "comp": 0, "checksum": 0})
    if force:
        cfg.update(force)
    if F * n < 1000 * d and (not cfg["cont"] or cfg["comp"] or cfg["checksum"]):
        # (a caller forced a chunked layout: use the smallest listed cadence that holds a sample in every file)
        ok = [F2 for F2 in CADENCES if F2 * n >= 1000 * d]
        if ok:
            F = ok[0]
            cfg["F"] = F
            cfg["S"] = F // 1000 if F % 1000 == 0 else F
    if cfg["cplx"] and cfg["kind"] == "f" and cfg["form"] == "native" and cfg["order"] == ">":
        # DigitalRFWriter derives the real type of a numpy complex dtype as native "f4"/"f8": a big-endian complex
        # dtype is stored little-endian (values preserved).  Big-endian complex floats are generated in struct form.
        cfg["form"] = "struct"
    # start index
    spf = _spf(n, d, F)
    u = draw(st.integers(0, 99))
    if u < int(boundary_p * 100):
        j = draw(st.integers(T1980 * 1000 // F + 1, T2100 * 1000 // F - 8))
        base = rfmodel.first_sample(cfg, j * F)
        delta = draw(st.sampled_from([0, 0, 1, 2, spf - 1, spf, spf + 1, -1, -2, 3, 7]))
        start = base - delta
    elif u < int(boundary_p * 100) + 15:
        js = draw(st.integers(T1980 // S + 1, T2100 // S - 2))
        base = rfmodel.first_sample(cfg, js * S * 1000)
        delta = draw(st.sampled_from([0, 1, 2, spf, 1 + spf // 2, 3]))
        start = base - delta
    elif u < int(boundary_p * 100) + 25:
        # a few samples around a whole second (start timestamps, second-resolution names)
        t = draw(st.integers(T1980, T2100 - 86400))
        start = rfmodel.ceil_div(t * n, d) - draw(st.sampled_from([0, 1, 1, 2, 3, -1]))
    else:
        t = draw(st.integers(T1980, T2100 - 86400))
        start = (t * n) // d + draw(st.integers(0, max(0, spf - 1)))
    cfg["start"] = max(0, start)
    if force_big:
        # the era is drawn explicitly (Hypothesis favours small integers, i.e. the early 1980s, where a double still has
        # sub-sample resolution at these rates): shift by whole seconds (boundary alignment is kept)
        era = draw(st.sampled_from([1995, 2010, 2024, 2026, 2040, 2070, 2095]))
        cur = cfg["start"] * d // n
        target = (era - 1970) * 31557600 + cur % 31557600
        cfg["start"] += (target - cur) * n // d
        # ... and forward by whole years until the index exceeds 2^53
        while cfg["start"] <= 1 << 53:
            cfg["start"] += (365 * 86400 * n) // d
    if force_big and float(cfg["start"]) == cfg["start"]:
        cfg["start"] += 1  # make it odd / inexact in binary64
        if float(cfg["start"]) == cfg["start"]:
            cfg["start"] += 2
    if not force_big:
        # era: mostly 1980-2100; sometimes right after the epoch (indices near 0), after 2106 (seconds need more than 32
        # bits) or in the far future.  Shifts are by whole multiples of S*d seconds = S*n samples, which keeps the position
        # relative to every file / subdirectory boundary
        era = draw(st.sampled_from(["std"] * 12 + ["epoch", "post2106", "post2106", "far"]))
        unit_t, unit_k = cfg["S"] * d, cfg["S"] * n
        cur_t = cfg["start"] * d // n
        if era == "epoch":
            cfg["start"] -= (cfg["start"] // unit_k) * unit_k
        elif era in ("post2106", "far"):
            target = (1 << 32) - 3 * unit_t + draw(st.integers(0, 10 ** 9)) if era == "post2106" else 250000000000 - draw(st.integers(0, 10 ** 10))
            K = (target - cur_t) // unit_t + 1
            if K > 0 and ((cur_t + K * unit_t + 10 ** 6) * n) // d < (1 << 62) and cur_t + K * unit_t < 253402000000:
                cfg["start"] += K * unit_k
        cfg["era"] = era
    # one recording in six is made by a process that receives a periodic signal all the time (rfharness.run_python); derived
    # from values drawn anyway, so that adding this dimension did not shift any other draw
    cfg["sigtimer"] = (cfg["start"] * 31 + cfg["salt"]) % 6 == 0
    return cfg


def _len_choices(spf):
    return sorted(set([1, 2, 3, max(1, spf - 1), spf, spf + 1, 2 * spf, 2 * spf + 1, 3 * spf + 2, 5 * spf, max(1, spf // 2)]))


def draw_op(draw, cfg, nxt, allow_blocks=True, allow_empty=False, max_files=5, max_blocks=5):
    """Draw one valid op that starts at or after relative index ``nxt``.  Returns (op, new_next)."""
    spf = _spf(cfg["n"], cfg["d"], cfg["F"])
    cap = max_files * spf + 2

    def boundary_gap(pos):
        k = cfg["start"] + pos
        hi = rfmodel.window(cfg, rfmodel.file_ms(cfg, k))[1]
        return hi - k

    def draw_gap(pos):
        c = draw(st.integers(0, 11))
        if c < 5:
            return 0
        if c == 5:
            return 1
        if c == 6:
            return draw(st.integers(1, max(1, spf)))
        bg = boundary_gap(pos)
        if c == 7:
            return bg
        if c == 8:
            return max(0, bg - 1)
        if c == 9:
            return bg + 1
        if c == 10:
            return bg + spf * draw(st.integers(1, 3))
        # across a subdirectory boundary
        k = cfg["start"] + pos
        sec = rfmodel.subdir_s(cfg, k) + cfg["S"]
        tgt = rfmodel.first_sample(cfg, sec * 1000)
        g = tgt - k + draw(st.sampled_from([-1, 0, 1]))
        if g < 0 or g > 64 * spf + 64:
            return bg
        return g

    def draw_len(pos=None):
        if pos is not None and draw(st.integers(0, 5)) == 0:
            # exactly up to the last slot of this file, or of one of the next two files
            k = cfg["start"] + pos
            hi = rfmodel.window(cfg, rfmodel.file_ms(cfg, k) + cfg["F"] * draw(st.integers(0, 2)))[1]
            if 0 < hi - k <= cap:
                return hi - k
        ln = draw(st.one_of(st.sampled_from(_len_choices(spf)), st.integers(1, max(1, min(cap, 3 * spf)))))
        return max(1, min(ln, cap))

    use_blocks = allow_blocks and draw(st.integers(0, 2)) == 0
    gap = draw_gap(nxt)
    if not use_blocks:
        if allow_empty and draw(st.integers(0, 14)) == 0:
            return {"op": "w", "idx": nxt + gap, "len": 0}, nxt
        ln = draw_len(nxt + gap)
        return {"op": "w", "idx": nxt + gap, "len": ln}, nxt + gap + ln
    nb = draw(st.integers(1, max_blocks))
    g, dd = [], []
    off = 0
    pos = nxt + gap
    compact = draw(st.integers(0, 3)) == 0  # several short blocks with short gaps: they stay inside one (open) file
    for bi in range(nb):
        ln = draw(st.integers(1, 3)) if compact else draw_len(pos)
        g.append(pos)
        dd.append(off)
        off += ln
        pos += ln
        if bi + 1 < nb:
            gg = draw(st.integers(0, 3)) if compact else draw_gap(pos)
            pos += max(0, gg)  # a gap of 0 is legal: two blocks of one call that happen to be adjacent (they read back as one)
    return {"op": "b", "len": off, "g": g, "d": dd}, pos


@st.composite
def write_ops(draw, cfg, max_calls=8, max_files=5, allow_blocks=True, allow_empty=False):
    """A valid write sequence (relative indices) for cfg."""
    ncalls = draw(st.integers(1, max_calls))
    ops = []
    nxt = 0
    for _ in range(ncalls):
        op, nxt = draw_op(draw, cfg, nxt, allow_blocks, allow_empty, max_files)
        ops.append(op)
    return ops


@st.composite
def read_ranges(draw, model, count):
    pts = model.interesting_points()
    b = model.bounds()
    out = []
    if not pts:
        pts = [model.cfg["start"]]
    lo_all = pts[0]
    hi_all = pts[-1]
    for _ in range(count):
        c = draw(st.integers(0, 9))
        if c < 6:
            a = draw(st.sampled_from(pts))
            e = draw(st.sampled_from(pts))
        elif c < 8:
            a = draw(st.integers(lo_all, hi_all))
            e = draw(st.integers(lo_all, hi_all))
        elif c == 8:
            a = draw(st.sampled_from(pts))
            e = a
        else:
            a, e = lo_all, hi_all
        if e < a:
            a, e = e, a
        out.append([max(0, a), max(0, e)])
    return out


ARGFORMS = ["plain", "plain", "plain", "strided", "strided", "list", "int64", "swapped", "onedim", "defnext", "npidx", "cplxnd",
            "cplxnd-other", "reuse"]


def draw_call_forms(draw, case):
    """How the Python writer is called (array_like arguments: strided views, lists, int64, other byte order, 1-D data;
    next_sample left at its default / given as a numpy integer) and how the session ends.  No effect on the C path."""
    if case.get("path", "py") != "py":
        return case
    for op in case["ops"]:
        f = draw(st.sampled_from(ARGFORMS))
        if f != "plain":
            op["argform"] = f
    # (atexit / fork run the recording in a process of its own: see rfharness.run_python_proc)
    case["end"] = draw(st.sampled_from(["close", "close", "close", "with", "del", "del", "withexc", "withexc", "atexit", "fork"]))
    if draw(st.integers(0, 2)) == 0:
        case["sibling"] = draw_sibling(draw, case["cfg"])
    return case


def draw_sibling(draw, cfg):
    """A second channel recorded by the SAME process at the same time (as multi-channel recorders do): another writer
    object with a different file cadence / rate / element type whose calls are interleaved with the primary writer's.
    Writer objects share nothing, so the primary channel must come out exactly as it does alone."""
    c2 = dict(cfg)
    c2["salt"] = (cfg["salt"] + 7919) % (1 << 32)
    c2["uuid"] = "sibling"
    n, d = cfg["n"], cfg["d"]
    if draw(st.integers(0, 1)):
        n, d = draw(st.sampled_from([(n * 2, d) if n * 2 < (1 << 32) else (n, d), (n, d * 3) if n >= 3 * d else (n, d), (n, d)]))
    cands = [F for F in CADENCES if F != cfg["F"] and F * n >= 1000 * d and _spf(n, d, F) <= 4096]
    F = draw(st.sampled_from(cands)) if cands else cfg["F"]
    S_ = F if F % 1000 else F // 1000
    if (S_ * 1000) % F != 0:
        S_ = F
    c2.update({"n": n, "d": d, "F": F, "S": max(1, S_) * draw(st.sampled_from([1, 2, 10]))})
    kind = draw(st.sampled_from(["i", "f", "u"]))
    c2.update({"kind": kind, "size": draw(st.sampled_from([4, 8] if kind == "f" else [1, 2, 4, 8])), "order": draw(st.sampled_from(["<", ">"])),
               "cplx": draw(st.integers(0, 1)), "form": "struct", "nsub": draw(st.sampled_from([1, 2])),
               "cont": draw(st.integers(0, 1)), "comp": 0, "checksum": 0})
    if c2["size"] == 1:
        c2["order"] = "<"
    # the sibling records the same time span as the primary: it starts at the sample nearest the primary's start time and,
    # after every call of the primary, is written up to the time the primary has reached (so both writers keep working
    # in file periods that begin at the same instants whenever one cadence divides the other)
    n2, d2 = c2["n"], c2["d"]
    c2["start"] = rfmodel.ceil_div(cfg["start"] * cfg["d"] * n2, cfg["n"] * d2)
    return {"cfg": c2}


def sibling_ops(cfg, ops, sib):
    """[pre-op, op after primary call 0, op after primary call 1, ...] (None = nothing to write) - see draw_sibling."""
    c2 = sib["cfg"]
    n2, d2 = c2["n"], c2["d"]
    out = [{"op": "w", "idx": 0, "len": 1}]
    nxt2 = 1
    m = rfmodel.Model(cfg)
    for op in ops:
        if m.why_invalid(op) is None:
            m.apply(op)
        else:
            m.skip_call()
        end_abs = cfg["start"] + m.next_avail  # the primary has reached this index
        target = rfmodel.ceil_div(end_abs * cfg["d"] * n2, cfg["n"] * d2) - c2["start"]
        ln = target - nxt2
        if ln <= 0:
            out.append(None)
            continue
        if ln > 20000:
            nxt2, ln = target - 20000, 20000
        out.append({"op": "w", "idx": nxt2, "len": ln})
        nxt2 += ln
    return out
