"""Exact reference model of a Digital RF channel (DESIGN.md section 3).

Everything here is Python ``int`` arithmetic and shares no code with either
implementation.  A *config* is a plain dict (JSON-able):

    kind 'i'|'u'|'f', size, order '<'|'>', cplx 0|1, form 'native'|'struct'|'interleaved',
    nsub, n, d, F (file cadence ms), S (subdir cadence s), cont 0|1, comp 0-9,
    checksum 0|1, start (absolute index of relative sample 0), salt, uuid

An *op* is {"op": "w", "idx": rel, "len": L} or
{"op": "b", "len": L, "g": [rel...], "d": [offset...]}; ``call`` numbers count
every write op (valid or not) issued to one writer, from 0.
"""
from __future__ import annotations

import datetime

import numpy as np

MASK64 = (1 << 64) - 1
GOLD = 0x9E3779B97F4A7C15


# ---------------------------------------------------------------- values
def _splitmix64_np(x):
    with np.errstate(over="ignore"):
        z = x + np.uint64(GOLD)
        z = (z ^ (z >> np.uint64(30))) * np.uint64(0xBF58476D1CE4E5B9)
        z = (z ^ (z >> np.uint64(27))) * np.uint64(0x94D049BB133111EB)
        return z ^ (z >> np.uint64(31))


def _splitmix64(x):
    z = (x + GOLD) & MASK64
    z = ((z ^ (z >> 30)) * 0xBF58476D1CE4E5B9) & MASK64
    z = ((z ^ (z >> 27)) * 0x94D049BB133111EB) & MASK64
    return z ^ (z >> 31)


def gen_values(salt, call, nelem, size, is_float):
    """uint64 array of the element values of call ``call`` (twin of drf_driver.c)."""
    base = _splitmix64((salt + call) & MASK64)
    with np.errstate(over="ignore"):
        e = np.arange(nelem, dtype=np.uint64)
        h = _splitmix64_np(np.uint64(base) + e * np.uint64(GOLD))
    mask = MASK64 if size == 8 else (1 << (8 * size)) - 1
    top = 1 << (8 * size - 1)
    if is_float:
        inf = 0x7F800000 if size == 4 else 0x7FF0000000000000
        nan = 0x7FC00000 if size == 4 else 0x7FF8000000000000
        snan = 0xFF800001 if size == 4 else 0xFFF0000000000001
    else:
        inf, nan, snan = top, top - 1, mask - 1
    pats = np.array([0, mask, top, top - 1, 1, inf, nan, snan], dtype=np.uint64)
    v = h & np.uint64(mask)
    special = (h >> np.uint64(60)) == 0
    sel = ((h >> np.uint64(56)) & np.uint64(7)).astype(np.int64)
    v = np.where(special, pats[sel], v)
    # value mode in bits 40-42 of the salt: 0 pseudo-random with special patterns (above), 1 all zeros, 2 one constant per
    # call, 3 the documented fill pattern (quiet NaN / most negative), 4 a ramp
    vmode = (salt >> 40) & 7
    if vmode == 1:
        v = np.zeros(nelem, dtype=np.uint64)
    elif vmode == 2:
        v = np.full(nelem, v[0] if nelem else 0, dtype=np.uint64)
    elif vmode == 3:
        v = np.full(nelem, nan if is_float else top, dtype=np.uint64)
    elif vmode == 4:
        v = (e + np.uint64(call)) & np.uint64(mask)
    return v


def real_dtype(cfg):
    return np.dtype("%s%s%d" % (cfg["order"] if cfg["size"] > 1 else "|", cfg["kind"], cfg["size"]))


def _order(cfg):
    return cfg["order"]


def stored_dtype(cfg):
    """dtype of one *sample* as the reader returns it."""
    rd = np.dtype("%s%s%d" % (cfg["order"], cfg["kind"], cfg["size"]))
    if not cfg["cplx"]:
        return rd
    if cfg["kind"] == "f":
        return np.dtype("%sc%d" % (cfg["order"], cfg["size"] * 2))
    return np.dtype([("r", rd), ("i", rd)])


def call_bytes(cfg, call, length):
    """Raw payload bytes of a call: length x nsub x (2 if complex) elements."""
    ncomp = 2 if cfg["cplx"] else 1
    nelem = length * cfg["nsub"] * ncomp
    v = gen_values(cfg["salt"], call, nelem, cfg["size"], cfg["kind"] == "f")
    ud = np.dtype("%su%d" % (cfg["order"], cfg["size"]))
    return v.astype(ud).tobytes()


def call_array(cfg, call, length, form=None):
    """numpy array to hand to the Python writer for this call."""
    raw = call_bytes(cfg, call, length)
    form = form or cfg.get("form", "struct")
    rd = np.dtype("%s%s%d" % (cfg["order"], cfg["kind"], cfg["size"]))
    if not cfg["cplx"]:
        return np.frombuffer(raw, dtype=rd).reshape(length, cfg["nsub"]).copy()
    if form == "interleaved":
        return np.frombuffer(raw, dtype=rd).reshape(length, 2 * cfg["nsub"]).copy()
    if form == "native" and cfg["kind"] == "f":
        cd = np.dtype("%sc%d" % (cfg["order"], cfg["size"] * 2))
        return np.frombuffer(raw, dtype=cd).reshape(length, cfg["nsub"]).copy()
    sd = np.dtype([("r", rd), ("i", rd)])
    return np.frombuffer(raw, dtype=sd).reshape(length, cfg["nsub"]).copy()


def sample_nbytes(cfg):
    return cfg["size"] * (2 if cfg["cplx"] else 1) * cfg["nsub"]


def fill_element_ok(cfg, raw_elem_bytes):
    """Is one stored *real* element (bytes in the stored byte order) the documented fill?"""
    v = int.from_bytes(raw_elem_bytes, "big" if cfg["order"] == ">" else "little")
    size = cfg["size"]
    if cfg["kind"] == "u":
        return v == 0
    if cfg["kind"] == "i":
        return v == 1 << (8 * size - 1)
    # float: NaN <=> exponent all ones and mantissa non-zero
    if size == 4:
        return (v >> 23) & 0xFF == 0xFF and (v & 0x7FFFFF) != 0
    return (v >> 52) & 0x7FF == 0x7FF and (v & ((1 << 52) - 1)) != 0


def _first_bad_fill(cfg, raw):
    """Index of the first element of raw (stored byte order) that is not the documented fill, or None."""
    sz = cfg["size"]
    v = np.frombuffer(raw, dtype=np.dtype("%su%d" % (cfg["order"], sz))).astype(np.uint64)
    if cfg["kind"] == "u":
        ok = v == 0
    elif cfg["kind"] == "i":
        ok = v == np.uint64(1 << (8 * sz - 1))
    elif sz == 4:
        ok = (((v >> np.uint64(23)) & np.uint64(0xFF)) == np.uint64(0xFF)) & ((v & np.uint64(0x7FFFFF)) != 0)
    else:
        ok = (((v >> np.uint64(52)) & np.uint64(0x7FF)) == np.uint64(0x7FF)) & ((v & np.uint64((1 << 52) - 1)) != 0)
    bad = np.nonzero(~ok)[0]
    return int(bad[0]) if len(bad) else None


# ---------------------------------------------------------------- layout
def ceil_div(a, b):
    return -((-a) // b)


def file_ms(cfg, k):
    return ((k * cfg["d"] * 1000) // cfg["n"]) // cfg["F"] * cfg["F"]


def subdir_s(cfg, k):
    return ((k * cfg["d"]) // cfg["n"]) // cfg["S"] * cfg["S"]


def first_sample(cfg, ms):
    return ceil_div(ms * cfg["n"], 1000 * cfg["d"])


def window(cfg, ms):
    """[lo, hi) absolute indices of the file whose stamp is ms."""
    return first_sample(cfg, ms), first_sample(cfg, ms + cfg["F"])


def subdir_name(sec):
    return (datetime.datetime(1970, 1, 1) + datetime.timedelta(seconds=sec)).strftime("%Y-%m-%dT%H-%M-%S")


def file_name(ms):
    return "rf@%d.%03d.h5" % (ms // 1000, ms % 1000)


def rel_path(cfg, k):
    ms = file_ms(cfg, k)
    # the directory is the one of the file's own time (files never straddle directories)
    sec = (ms // 1000) // cfg["S"] * cfg["S"]
    return subdir_name(sec) + "/" + file_name(ms)


def samples_per_file_max(cfg):
    return ceil_div(cfg["F"] * cfg["n"], 1000 * cfg["d"])


def chunked(cfg):
    return bool((not cfg["cont"]) or cfg["comp"] or cfg["checksum"])


# ---------------------------------------------------------------- model
class Model:
    def __init__(self, cfg):
        self.cfg = cfg
        self.runs = []  # (abs_start, length, call, pos0) sorted, disjoint
        self.call = 0
        self.next_avail = 0  # relative
        self.total_written = 0
        self.total_gap = 0
        self.last_index = None  # absolute index of the most recently written sample

    # validity of an op against the current state (C05's list of reasons)
    def why_invalid(self, op):
        if op["op"] == "w":
            if op["idx"] < self.next_avail:
                return "past"
            return None
        g, dd, L = op["g"], op["d"], op["len"]
        if len(g) != len(dd):
            return "lenmismatch"
        if len(g) == 0:
            return "empty-index"
        if g[0] < self.next_avail:
            return "past"
        if dd[0] != 0:
            return "first-offset"
        for i in range(1, len(g)):
            if dd[i] <= dd[i - 1]:
                return "offsets-nonincreasing"
            if g[i] <= g[i - 1]:
                return "indices-nonincreasing"
            if dd[i] - dd[i - 1] > g[i] - g[i - 1]:
                return "overlap"
        if dd[-1] >= L:
            return "offset-past-end"
        return None

    def apply(self, op):
        """Apply a *valid* op.  Returns the new next-available (relative)."""
        st = self.cfg["start"]
        call = op.get("cid", self.call)
        self.call += 1
        if op["op"] == "w":
            L = op["len"]
            if L > 0:
                self.runs.append((st + op["idx"], L, call, 0))
                self.total_gap += op["idx"] - self.next_avail
                self.total_written += L
                self.next_avail = op["idx"] + L
                self.last_index = st + op["idx"] + L - 1
            return self.next_avail
        g, dd, L = op["g"], op["d"], op["len"]
        for i in range(len(g)):
            ln = (dd[i + 1] if i + 1 < len(g) else L) - dd[i]
            self.runs.append((st + g[i], ln, call, dd[i]))
        end = g[-1] + (L - dd[-1])
        self.total_gap += (end - self.next_avail) - L
        self.total_written += L
        self.next_avail = end
        self.last_index = st + end - 1
        return self.next_avail

    def skip_call(self):
        """A rejected call still consumes a call number (payload numbering)."""
        self.call += 1

    # ---- queries
    def merged_runs(self):
        """Written runs with adjacent ones merged: list of (start, [(len, call, pos0)...])."""
        out = []
        for r in sorted(self.runs):
            if out and out[-1][0] + out[-1][1] == r[0]:
                out[-1][1] += r[1]
                out[-1][2].append(r)
            else:
                out.append([r[0], r[1], [r]])
        return out

    def bounds(self):
        if not self.runs:
            return None
        lo = min(r[0] for r in self.runs)
        hi = max(r[0] + r[1] - 1 for r in self.runs)
        if self.cfg["cont"] and not chunked(self.cfg):
            lo = window(self.cfg, file_ms(self.cfg, lo))[0]
            hi = window(self.cfg, file_ms(self.cfg, hi))[1] - 1
        return lo, hi

    def _run_bytes(self, run, a, b):
        """payload bytes of run restricted to absolute [a, b] (inclusive)."""
        s, ln, call, pos0 = run
        lo = max(a, s)
        hi = min(b, s + ln - 1)
        if lo > hi:
            return b""
        # total length of that call is not stored; regenerate up to what is needed
        need = pos0 + (hi - s) + 1
        raw = call_bytes(self.cfg, call, need)
        nb = sample_nbytes(self.cfg)
        return raw[(pos0 + lo - s) * nb:(pos0 + hi - s + 1) * nb]

    def file_windows(self):
        """Sorted list of stamps (ms) of files that exist."""
        stamps = set()
        F = self.cfg["F"]
        for s, ln, _, _ in self.runs:
            ms = file_ms(self.cfg, s)
            last = file_ms(self.cfg, s + ln - 1)
            while ms <= last:
                stamps.add(ms)
                ms += F
        # a stamp from the loop above may in principle hold no sample of the run if windows
        # were empty; the domain guarantees >= 1 sample per file, and runs are contiguous.
        return sorted(stamps)

    def expected_blocks(self, a, b):
        """Ordered list of (start, bytes, fillmask-or-None) the reader must return for [a, b].

        fillmask is a list of (lo, hi) absolute inclusive ranges inside the block that are fill.
        """
        cfg = self.cfg
        nb = sample_nbytes(cfg)
        if not (cfg["cont"] and not chunked(cfg)):
            out = []
            for s, ln, runs in self.merged_runs():
                lo = max(a, s)
                hi = min(b, s + ln - 1)
                if lo > hi:
                    continue
                buf = b"".join(self._run_bytes(r, lo, hi) for r in runs)
                out.append((lo, buf, None))
            return out
        # continuous, unfiltered: whole windows of existing files
        stamps = self.file_windows()
        blocks = []
        for ms in stamps:
            lo, hi = window(cfg, ms)
            if blocks and blocks[-1][1] == lo:
                blocks[-1][1] = hi
            else:
                blocks.append([lo, hi])
        out = []
        runs = sorted(self.runs)
        for lo, hi in blocks:
            lo2 = max(lo, a)
            hi2 = min(hi - 1, b)
            if lo2 > hi2:
                continue
            buf = bytearray(b"\x00" * ((hi2 - lo2 + 1) * nb))
            covered = []
            for r in runs:
                if r[0] + r[1] - 1 < lo2 or r[0] > hi2:
                    continue
                rb = self._run_bytes(r, lo2, hi2)
                off = (max(r[0], lo2) - lo2) * nb
                buf[off:off + len(rb)] = rb
                covered.append((max(r[0], lo2), min(r[0] + r[1] - 1, hi2)))
            fill = []
            cur = lo2
            for c0, c1 in sorted(covered):
                if c0 > cur:
                    fill.append((cur, c0 - 1))
                cur = max(cur, c1 + 1)
            if cur <= hi2:
                fill.append((cur, hi2))
            out.append((lo2, bytes(buf), fill))
        return out

    def written_indices_in_file(self, ms):
        lo, hi = window(self.cfg, ms)
        out = []
        for s, ln, call, pos0 in sorted(self.runs):
            a = max(s, lo)
            b = min(s + ln, hi)
            if a < b:
                out.append((a, b - a, call, pos0 + a - s))
        return out

    def interesting_points(self):
        pts = set()
        cfg = self.cfg
        for s, ln, _, _ in self.runs:
            for k in (s, s + ln - 1):
                pts.update((k - 1, k, k + 1))
                ms = file_ms(cfg, k)
                lo, hi = window(cfg, ms)
                pts.update((lo - 1, lo, lo + 1, hi - 2, hi - 1, hi))
        b = self.bounds()
        if b:
            spf = samples_per_file_max(cfg)
            for d in (1, spf, 3 * spf):
                pts.update((b[0] - d, b[1] + d))
        return sorted(p for p in pts if p >= 0)


def compare_block(cfg, exp, got_start, got_arr):
    """Compare one returned block with the model's (start, bytes, fill).  Returns None or text."""
    s, buf, fill = exp
    if got_start != s:
        return "block start %d != expected %d" % (got_start, s)
    nb = sample_nbytes(cfg)
    nexp = len(buf) // nb
    if got_arr.shape[0] != nexp:
        return "block %d length %d != expected %d" % (s, got_arr.shape[0], nexp)
    if got_arr.ndim != 2 or got_arr.shape[1] != cfg["nsub"]:
        return "block %d shape %r (nsub %d)" % (s, got_arr.shape, cfg["nsub"])
    sd = stored_dtype(cfg)
    # h5py hands back native byte order for some stored types; the property is about values
    # (bit patterns), so the dtype must agree up to byte order and bytes are compared after
    # a pure byte swap into the stored order.
    if got_arr.dtype.newbyteorder("<") != sd.newbyteorder("<"):
        return "block %d dtype %r != stored %r" % (s, got_arr.dtype, sd)
    got = np.ascontiguousarray(got_arr).astype(sd, copy=False).tobytes()
    if fill is None or not fill:
        if got != buf:
            i = next(i for i in range(len(buf)) if got[i] != buf[i])
            return "block %d value mismatch at sample %d (byte %d)" % (s, s + i // nb, i)
        return None
    # check written part byte-exact and fill part by predicate
    pos = 0
    sz = cfg["size"]
    fills = sorted(fill)
    cur = s
    for f0, f1 in fills + [(s + nexp, s + nexp - 1)]:
        a = (cur - s) * nb
        bnd = (f0 - s) * nb
        if got[a:bnd] != buf[a:bnd]:
            i = next(i for i in range(a, bnd) if got[i] != buf[i])
            return "block %d value mismatch at sample %d" % (s, s + i // nb)
        lo_b, hi_b = (f0 - s) * nb, (f1 - s + 1) * nb
        if hi_b > lo_b:
            bad = _first_bad_fill(cfg, got[lo_b:hi_b])
            if bad is not None:
                off = lo_b + bad * sz
                return "block %d fill slot %d holds %s, not the documented fill" % (
                    s, s + off // nb, got[off:off + sz].hex())
        cur = f1 + 1
    return None
